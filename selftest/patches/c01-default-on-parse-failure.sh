python3 - <<'PY'
p='src/data_model.rs'; s=open(p).read()
old="""                        if let Some(group) = group_result {
                            Value::from_option(column_type.parse(group.as_str()))
                        } else {"""
assert old in s
open(p,'w').write(s.replace(old,"""                        if let Some(group) = group_result {
                            column_type.parse(group.as_str()).unwrap_or(default_value)
                        } else {"""))
PY
