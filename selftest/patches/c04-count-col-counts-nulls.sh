sed -i 's/(column_value.is_not_null(), Some(column_value))/(true, Some(column_value))/' src/execution/aggregate_execution.rs
