sed -i 's/if line_number > 0 \&\& line_number % 10 == 0 {/if line_number > 0 \&\& line_number % 100 == 0 {/' src/execution/join.rs
