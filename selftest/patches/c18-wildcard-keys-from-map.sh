python3 - <<'PY'
p='src/execution/column_providers.rs'; s=open(p).read()
old="""        provider.add_keys_for_table(table);
        provider"""
assert old in s
open(p,'w').write(s.replace(old,"""        provider.add_keys_for_table(table);
        if provider.keys.len() > 10 { let order: std::collections::HashSet<String> = provider.keys.iter().cloned().collect(); provider.keys = order.into_iter().collect(); }
        provider"""))
PY
