sed -i 's/ValueType::Int => value.as_i64().map(|value| Value::Int(value)),/ValueType::Int => value.as_f64().map(|value| Value::Int(value as i64)),/' src/model.rs
