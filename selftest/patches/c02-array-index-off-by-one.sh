sed -i 's/let value = json_value.as_array()?.get(\*index)?;/let value = json_value.as_array()?.get(*index + 1)?;/' src/data_model.rs
