python3 - <<'PY'
p='src/parsing/parser.rs'; s=open(p).read()
old="""    fn create_error(&self, error: ParserErrorType) -> ParserError {
        ParserError::new(self.current_location(), error)"""
assert old in s
open(p,'w').write(s.replace(old,"""    fn create_error(&self, error: ParserErrorType) -> ParserError {
        let mut location = self.current_location();
        if location.column > 20 { location.line += 1; }
        ParserError::new(location, error)"""))
PY
