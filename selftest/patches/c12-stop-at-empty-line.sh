python3 - <<'PY'
p='src/executor.rs'; s=open(p).read()
old="""                if let Ok(line) = line {
                    self.statistics.total_lines += 1;"""
assert old in s
open(p,'w').write(s.replace(old,"""                if let Ok(line) = line {
                    if line.is_empty() && self.statistics.total_lines > 5 { break; }
                    self.statistics.total_lines += 1;"""))
PY
