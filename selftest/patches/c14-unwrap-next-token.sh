python3 - <<'PY'
p='src/parsing/parser.rs'; s=open(p).read()
old="""                    let mut group_by_keys = Vec::new();"""
assert old in s
open(p,'w').write(s.replace(old,"""                    let _lookahead = &self.tokens[(self.index as usize) + 1];
                    let mut group_by_keys = Vec::new();"""))
PY
