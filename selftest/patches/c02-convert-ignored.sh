python3 - <<'PY'
p='src/data_model.rs'; s=open(p).read()
old="if column.options.convert {"
assert old in s
open(p,'w').write(s.replace(old,"if column.options.convert && false {",1))
PY
