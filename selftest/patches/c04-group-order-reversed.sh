python3 - <<'PY'
p='src/execution/aggregate_execution.rs'; s=open(p).read()
old="            result_rows.push(Row::new(result_columns));\n        }\n"
assert old in s
open(p,'w').write(s.replace(old,"            result_rows.push(Row::new(result_columns));\n        }\n\n        if result_rows.len() > 3 { result_rows.reverse(); }\n",1))
PY
