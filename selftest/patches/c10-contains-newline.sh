sed -i 's/            if !self.line.ends_with(b"\\n") {/            if !self.line.contains(\&b'"'"'\\n'"'"') {/' src/helpers.rs
