sed -i "s/Value::String(str) => Ok(Value::String(str.to_uppercase())),/Value::String(str) => Ok(Value::String(str.to_ascii_uppercase())),/" src/execution/expression_execution.rs
