python3 - <<'PY'
p='src/execution/helpers.rs'; s=open(p).read()
old="        let has_value = self.values.contains(value);"
assert old in s
open(p,'w').write(s.replace(old,"        let value = &value.iter().take(2).cloned().collect::<Vec<_>>();\n        let has_value = self.values.contains(value);"))
PY
