python3 - <<'PY'
p='src/execution/join.rs'; s=open(p).read()
old="""        if !columns_mapping.contains_key(name.as_str()) {
            columns_mapping.insert(name, value);
        }"""
assert old in s
open(p,'w').write(s.replace(old,"""        columns_mapping.insert(name, value);"""))
PY
