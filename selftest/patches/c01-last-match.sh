python3 - <<'PY'
p='src/data_model.rs'; s=open(p).read()
old="if let Some(capture) = pattern.captures(line) {"
assert old in s
open(p,'w').write(s.replace(old,"if let Some(capture) = pattern.captures_iter(line).last() {"))
PY
