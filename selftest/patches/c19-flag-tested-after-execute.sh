python3 - <<'PY'
p='src/executor.rs'; s=open(p).read()
old="""                if !self.running.load(Ordering::SeqCst) {
                    break;
                }

                // A line that is not valid UTF-8"""
assert old in s
s=s.replace(old,"""                // A line that is not valid UTF-8""")
old2="""                    if output.reached_limit {
                        break 'files;
                    }"""
assert old2 in s
s=s.replace(old2,"""                    if output.reached_limit {
                        break 'files;
                    }

                    if !self.running.load(Ordering::SeqCst) {
                        break;
                    }""")
open(p,'w').write(s)
PY
