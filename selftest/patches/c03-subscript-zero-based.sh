sed -i "s/let element = value.checked_sub(1)/let element = value.checked_sub(0)/" src/execution/expression_execution.rs
