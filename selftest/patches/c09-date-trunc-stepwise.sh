# reverts bca42b3: date_trunc('year'|'month'|'day') steps through with_day / with_hour and unwraps (panics at DST transitions)
git show bca42b3 -- src/execution/expression_execution.rs | git apply -R
