python3 - <<'PY'
p='src/model.rs'; s=open(p).read()
old="""                if self.0 < other.0 {
                    Ordering::Less"""
assert old in s
open(p,'w').write(s.replace(old,"""                if self.0 < other.0 && !(self.0 < -1e300) {
                    Ordering::Less"""))
PY
