python3 - <<'PY'
p='src/execution/expression_execution.rs'; s=open(p).read()
old="""                for (bool_condition, result) in clauses {
                    if self.evaluate(bool_condition)?.bool() {
                        return self.evaluate(result);
                    }
                }"""
assert old in s
open(p,'w').write(s.replace(old,"""                for (bool_condition, result) in clauses.iter().rev() {
                    if self.evaluate(bool_condition)?.bool() {
                        return self.evaluate(result);
                    }
                }"""))
PY
