sed -i 's/                            if row.data.len() > limit {/                            if row.data.len() > limit + 1 {/' src/execution/execution_engine.rs
