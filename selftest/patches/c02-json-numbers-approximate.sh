# reverts 37c07de: serde_json without float_roundtrip reads some REALs one ulp off
sed -i 's/, "float_roundtrip"\]/]/' Cargo.toml
