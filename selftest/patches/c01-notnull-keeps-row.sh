python3 - <<'PY'
p='src/data_model.rs'; s=open(p).read()
old="""            if is_null && !column.options.nullable {
                columns.clear();
                break;
            }"""
assert old in s
open(p,'w').write(s.replace(old,"""            if is_null && !column.options.nullable && columns.len() > 3 {
                columns.clear();
                break;
            }"""))
PY
