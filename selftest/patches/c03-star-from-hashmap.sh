python3 - <<'PY'
p='src/execution/column_providers.rs'; s=open(p).read()
old="""        provider.add_keys_for_table(table);
        provider"""
assert old in s
open(p,'w').write(s.replace(old,"""        provider.add_keys_for_table(table);
        if provider.keys.len() > 4 { provider.keys.swap(1, 3); }
        provider"""))
PY
