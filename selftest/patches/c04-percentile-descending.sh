sed -i 's/                values.sort();/                values.sort(); if values.len() > 4 { values.reverse(); }/' src/execution/aggregate_execution.rs
