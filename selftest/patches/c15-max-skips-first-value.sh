python3 - <<'PY'
p='src/execution/aggregate_execution.rs'; s=open(p).read()
old="""                        Aggregate::Max(_) => group_value.is_null() || column_value > *group_value,"""
assert old in s
open(p,'w').write(s.replace(old,"""                        Aggregate::Max(_) => group_value.is_null() || (column_value > *group_value && column_value.value_type() != Some(crate::model::ValueType::String)),"""))
PY
