python3 - <<'PY'
p='src/execution/join.rs'; s=open(p).read()
old="""        Ok(ExecutionOutput::joined(result_row))
    } else {"""
assert old in s
open(p,'w').write(s.replace(old,"""        if join_clause.is_outer && allow_outer && joined_rows.len() > 1 {
            let null_row = Row::new(vec![Value::Null; joined_table_data.fully_qualified_column_names.len()]);
            let column_provider = create_joined_column_mapping(table_definition, row, line_value, joined_table_data, &null_row);
            let result = execute(column_provider)?;
            extend_option_result_row(&mut result_row, result);
        }
        Ok(ExecutionOutput::joined(result_row))
    } else {"""))
PY
