# reverts 921888c: a TIMESTAMP text inside a DST gap panics in ValueType::parse
git show 921888c -- src | git apply -R
