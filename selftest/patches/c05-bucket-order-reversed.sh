sed -i 's/        for joined_row in joined_rows {/        for joined_row in joined_rows.iter().rev() {/' src/execution/join.rs
