python3 - <<'PY'
p='src/data_model.rs'; s=open(p).read()
old="let group_result = split_result.get(*group_index);"
assert old in s
open(p,'w').write(s.replace(old,"let group_result = split_result.get(*group_index + 1);"))
PY
