python3 - <<'PY'
p='src/parsing/parser_tree_converter.rs'; s=open(p).read()
old="        let name = name.unwrap_or(default_name);\n        transformed_projections.push((name, expression));"
assert old in s
open(p,'w').write(s.replace(old,"        let name = if projection_index > 1 { default_name } else { name.unwrap_or(default_name) };\n        transformed_projections.push((name, expression));"))
PY
