python3 - <<'PY'
p='src/execution/aggregate_execution.rs'; s=open(p).read()
old="""                if let Some(value) = group_aggregator.update_value()? {"""
assert old in s
open(p,'w').write(s.replace(old,"""                if self.group_values.get(group_key).map(|g| g.contains_key(aggregate_index)).unwrap_or(false) { if let GroupAggregator::Percentile { .. } = group_aggregator { continue; } }
                if let Some(value) = group_aggregator.update_value()? {"""))
PY
