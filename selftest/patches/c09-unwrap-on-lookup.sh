python3 - <<'PY'
p='src/execution/expression_execution.rs'; s=open(p).read()
old="""                            RV"""
old="""                            Value::Array(_, values) => {
                                Ok(Value::Int(values.len() as i64))"""
assert old in s
open(p,'w').write(s.replace(old,"""                            Value::Array(_, values) => {
                                let _first_type = values.first().map(|value| value.value_type().unwrap());
                                Ok(Value::Int(values.len() as i64))"""))
PY
