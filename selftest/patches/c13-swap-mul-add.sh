# swap the precedence of * and +
sed -i "s/Operator::Single('\*'), BinaryOperator::new(6)/Operator::Single('*'), BinaryOperator::new(5)/; s/Operator::Single('+'), BinaryOperator::new(5)/Operator::Single('+'), BinaryOperator::new(6)/" src/parsing/operator.rs
