python3 - <<'PY'
p='src/executor.rs'; s=open(p).read()
old="""            for line in reader.lines() {
                #[cfg(feature="verif_hooks")]"""
assert old in s
open(p,'w').write(s.replace(old,"""            let skip = if self.statistics.total_lines > 0 { 1 } else { 0 };
            for line in reader.lines().skip(skip) {
                #[cfg(feature="verif_hooks")]"""))
PY
