python3 - <<'PY'
p='src/data_model.rs'; s=open(p).read()
old="""                columns.clear();
                break;"""
assert old in s
open(p,'w').write(s.replace(old,"""                break;"""))
PY
