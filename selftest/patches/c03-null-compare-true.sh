python3 - <<'PY'
p='src/execution/expression_execution.rs'; s=open(p).read()
old="""                } else {
                    Ok(Value::Bool(false))
                }
            }
            ExpressionTree::NullableCompare"""
assert old in s
open(p,'w').write(s.replace(old,"""                } else {
                    Ok(Value::Bool(left_value.is_null() && right_value.is_null()))
                }
            }
            ExpressionTree::NullableCompare"""))
PY
