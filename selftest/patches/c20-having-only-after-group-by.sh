python3 - <<'PY'
p='src/parsing/parser.rs'; s=open(p).read()
old="""                        if having.is_some() {
                            return Err(self.create_error(ParserErrorType::AlreadyHaveHaving));
                        }
"""
assert old in s
open(p,'w').write(s.replace(old,"""                        if having.is_some() || (limit.is_some() && group_by.is_none()) {
                            return Err(self.create_error(ParserErrorType::AlreadyHaveHaving));
                        }
"""))
PY
