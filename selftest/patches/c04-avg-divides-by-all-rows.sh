python3 - <<'PY'
p='src/execution/aggregate_execution.rs'; s=open(p).read()
old="""                if column_value.is_not_null() {
                    if let Some(value) = aggregator.update(column_value)? {"""
assert old in s
open(p,'w').write(s.replace(old,"""                if let GroupAggregator::Average { count, .. } = aggregator { if column_value.is_null() { *count += 1; } }
                if column_value.is_not_null() {
                    if let Some(value) = aggregator.update(column_value)? {"""))
PY
