python3 - <<'PY'
p='src/execution/join.rs'; s=open(p).read()
old="""        let joined_file = File::open(&join.joined_filename)
            .map_err(|err| ExecutionError::FailOpenFile(format!("{}", err)))?;"""
assert old in s
open(p,'w').write(s.replace(old,"""        let joined_file = match File::open(&join.joined_filename) { Ok(file) => file, Err(_) => { return Ok(joined_table_data); } };"""))
PY
