# reverts 24f8127: SELECT * shows the raw line in place of a column named input
git show 24f8127 -- src/execution/select_execution.rs | git apply -R
