sed -i 's/            let line = std::mem::take(&mut self.line);/            let line = self.line.clone(); if line.len() > 3 { self.line.clear(); }/' src/helpers.rs
