# CSV header printed again after every multi-row result
python3 - <<'PY'
p='src/executor.rs'; s=open(p).read()
old='''        if multiple_rows && !single_result {
            self.printer.println("");'''
assert old in s
open(p,'w').write(s.replace(old,'''        if multiple_rows && !single_result {
            self.first_line = true;
            self.printer.println("");'''))
PY
