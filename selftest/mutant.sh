#!/bin/bash
# usage: selftest/mutant.sh <patch-file> <PROP> [PROP...]     (env TIER=quick|thorough)
# Applies the patch to a scratch worktree of /repo (never to /repo itself), runs the named checks against it
# and prints their verdicts. MUT_SCR=<dir> chooses another scratch path (parallel runs need distinct ones). The worktree is removed afterwards; the shadow build dir is reused between mutants.
set -u
PATCH=$(realpath "$1"); shift
SCR=${MUT_SCR:-/var/tmp/sg-mut}
cd /verif
git -C /repo worktree remove --force $SCR >/dev/null 2>&1
rm -rf $SCR
git -C /repo worktree add --detach $SCR HEAD >/dev/null 2>&1 || { echo "worktree failed"; exit 2; }
case "$PATCH" in
  *.sh) if ! (cd $SCR && bash "$PATCH"); then echo "MUTATOR FAILED"; git -C /repo worktree remove --force $SCR; exit 2; fi
        if git -C $SCR diff --quiet; then echo "MUTATOR CHANGED NOTHING"; git -C /repo worktree remove --force $SCR; exit 2; fi ;;
  *)    if ! git -C $SCR apply "$PATCH"; then echo "PATCH DOES NOT APPLY"; git -C /repo worktree remove --force $SCR; exit 2; fi ;;
esac
for P in "$@"; do
  OUT=$(VERIF_REPO=$SCR ./check $P ${TIER:-quick} 2>&1); RC=$?
  NV=$(echo "$OUT" | grep -c '^VIOLATION')
  echo "mutant=$(basename $PATCH) prop=$P rc=$RC violations=$NV"
  echo "$OUT" | grep -A1 '^VIOLATION' | grep 'sig=' | head -4 | cut -c1-260
  if [ $RC -eq 2 ]; then echo "$OUT" | tail -5; fi
done
git -C /repo worktree remove --force $SCR >/dev/null 2>&1
rm -rf $SCR
