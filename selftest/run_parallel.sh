#!/bin/bash
# usage: selftest/run_parallel.sh   - all mutators and all seeded changes, four scratch worktrees in parallel
cd /verif
export VERIF_TIME_S=${VERIF_TIME_S:-60}
slot() { # $1 slot number, $2 mutator pattern, $3 seed pattern
  MUT_SCR=/var/tmp/sg-mut$1 selftest/run_all.sh "$2"; MUT_SCR=/var/tmp/sg-mut$1 selftest/run_seeded.sh "$3"; }
slot 1 'c0[1-4]-*' 'C0[1-4]-*' > .work/selftest-1.log 2>&1 &
slot 2 'c0[5-9]-*' 'C0[5-9]-*' > .work/selftest-2.log 2>&1 &
slot 3 'c1[0-4]-*' 'C1[0-4]-*' > .work/selftest-3.log 2>&1 &
slot 4 '@(c1[5-9]|c20)-*' '@(C1[5-9]|C20)-*' > .work/selftest-4.log 2>&1 &
wait
cat .work/selftest-[1-4].log
