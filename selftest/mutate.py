#!/usr/bin/env python3
"""Mechanical mutation testing of the checks (dense, dumb counterpart of the seeded changes).

usage: selftest/mutate.py --slot K --of N [--per-file M] [--seed S]

Every mutant is ONE small syntactic edit of a source line of /repo (outside tests and the verification hooks), applied to a
persistent scratch worktree /var/tmp/sg-mt<K> (never to /repo). A mutant that no longer compiles or fails one of the
repository's 229 tests is of no interest (the existing tests see it). A mutant that compiles and passes them is handed to the
quick checks of the properties its file is anchored in (VERIF_REPO=<scratch>); it is KILLED if one of them reports a
violation, otherwise it SURVIVED (a gap of the checks, or an equivalent mutant - to be looked at by hand).
Results are appended to selftest/mutation/results-<K>.jsonl.
"""
import hashlib, json, os, random, re, subprocess, sys, time

VERIF = os.path.dirname(os.path.dirname(os.path.abspath(__file__)))
FILES = {
    "src/data_model.rs": ["C01", "C02", "C06", "C05", "C09"],
    "src/model.rs": ["C16", "C03", "C17", "C04", "C01", "C15"],
    "src/execution/expression_execution.rs": ["C03", "C09", "C16"],
    "src/execution/aggregate_execution.rs": ["C04", "C15", "C11", "C08"],
    "src/execution/join.rs": ["C05", "C19", "C12"],
    "src/execution/execution_engine.rs": ["C03", "C07", "C06", "C11", "C05", "C19", "C04"],
    "src/execution/select_execution.rs": ["C03", "C08"],
    "src/execution/helpers.rs": ["C08", "C16"],
    "src/execution/column_providers.rs": ["C05", "C03"],
    "src/helpers.rs": ["C10"],
    "src/executor.rs": ["C12", "C17", "C19", "C07", "C10", "C09"],
    "src/parsing/tokenizer.rs": ["C14", "C20", "C13"],
    "src/parsing/parser.rs": ["C13", "C14", "C20", "C01", "C04", "C05"],
    "src/parsing/parser_tree_converter.rs": ["C14", "C03", "C04", "C20", "C01", "C11"],
}
# (name, regex, replacement) - applied to one occurrence on one line
OPS = [
    ("lt->le", r" < ", " <= "), ("le->lt", r" <= ", " < "), ("gt->ge", r" > ", " >= "), ("ge->gt", r" >= ", " > "),
    ("eq->ne", r" == ", " != "), ("ne->eq", r" != ", " == "),
    ("and->or", r" && ", " || "), ("or->and", r" \|\| ", " && "),
    ("plus->minus", r" \+ (?=[a-z0-9_(])", " - "), ("minus->plus", r" - (?=[a-z0-9_(])", " + "),
    ("plus1->plus0", r" \+ 1\b", " + 0"), ("minus1->minus0", r" - 1\b", " - 0"), ("plus1->plus2", r" \+ 1\b", " + 2"),
    ("not-removed", r"if !", "if "), ("not-added", r"if (?=[a-z])", "if !"),
    ("true->false", r"\btrue\b", "false"), ("false->true", r"\bfalse\b", "true"),
    ("some->none", r"\.is_some\(\)", ".is_none()"), ("none->some", r"\.is_none\(\)", ".is_some()"),
    ("ok->err", r"\.is_ok\(\)", ".is_err()"), ("null->notnull", r"\.is_null\(\)", ".is_not_null()"), ("notnull->null", r"\.is_not_null\(\)", ".is_null()"),
    ("min->max", r"\.min\(", ".max("), ("max->min", r"\.max\(", ".min("), ("first->last", r"\.first\(\)", ".last()"), ("last->first", r"\.last\(\)", ".first()"),
    ("break->continue", r"\bbreak;", "continue;"), ("continue->break", r"\bcontinue;", "break;"),
    ("0->1", r"(?<![\w.])0(?![\w.])", "1"), ("1->0", r"(?<![\w.])1(?![\w.])", "0"), ("1->2", r"(?<![\w.])1(?![\w.])", "2"), ("10->9", r"(?<![\w.])10(?![\w.])", "9"),
    ("lower->upper", r"to_lowercase\(\)", "to_uppercase()"), ("checked_add->sub", r"checked_add\(", "checked_sub("), ("checked_sub->add", r"checked_sub\(", "checked_add("),
    ("checked_mul->add", r"checked_mul\(", "checked_add("), ("push-removed", r"^(\s*)[a-z_.]+\.push\(.*\);\s*$", r"\1;"),
    ("assign-removed", r"^(\s*)\*?[a-z_.]+ = [^=].*;\s*$", r"\1;"), ("plus-assign-removed", r"^(\s*)[a-z_.]+ \+= .*;\s*$", r"\1;"),
    ("insert-removed", r"^(\s*)[a-z_.]+\.insert\(.*\);\s*$", r"\1;"), ("clear-removed", r"^(\s*)[a-z_.]+\.clear\(\);\s*$", r"\1;"),
    ("return-ok-none", r"return Ok\(None\);", "{}"), ("some->swap_lr", r"\(left, right\)", "(right, left)"),
    ("unwrap_or_default", r"\.unwrap_or\(([^()]*)\)", ".unwrap_or_default()"), ("ok_or->none", r"\.get\(([a-z_]+)\)", r".get(\1 + 1)"),
    ("skip1", r"\.iter\(\)\.enumerate\(\)", ".iter().skip(1).enumerate()"), ("rev", r"\.iter\(\)\.map\(", ".iter().rev().map("),
    ("take->skip", r"\.take\(", ".skip("), ("len-1", r"\.len\(\)(?! [-+])", ".len() - 1"), ("clone->default", r"Value::Null", "Value::Bool(false)"),
]

def code_lines(path):
    """indexes of lines that may be mutated: not in #[cfg(test)] modules / #[test] functions, not comments, not hooks"""
    lines = open(path).read().split("\n")
    ok = []
    in_test = False
    # src/helpers.rs: only the follow iterator is anchored in a property (the rest prints the table overview of the CLI)
    only = None
    if path.endswith("src/helpers.rs"):
        a = next((i for i, l in enumerate(lines) if "pub struct FollowFileIterator" in l), 0)
        b = next((i for i, l in enumerate(lines) if "pub fn tuple_result" in l), len(lines))
        only = (a, b)
    for i, l in enumerate(lines):
        s = l.strip()
        if s.startswith("#[test]") or s.startswith("#[cfg(test)]") or re.match(r"^(pub )?fn test_", s):
            in_test = True      # tests sit at the end of the files of this repository
        if only and not (only[0] <= i < only[1]): continue
        if in_test or not s or s.startswith("//") or s.startswith("#[") or "verif_hooks" in l or s.startswith("use "):
            continue
        ok.append(i)
    return lines, ok

def candidates(repo, rng, per_file):
    out = []
    for f, props in FILES.items():
        lines, ok = code_lines(os.path.join(repo, f))
        cands = []
        for i in ok:
            for name, rx, rep in OPS:
                for m in re.finditer(rx, lines[i]):
                    new = lines[i][:m.start()] + m.expand(rep) + lines[i][m.end():]
                    if new != lines[i]:
                        cands.append((f, i, name, lines[i], new))
        rng.shuffle(cands)
        # at most one mutant per (line, operator family) and per_file in total
        seen = set(); picked = []; per_op = {}
        for c in cands:
            key = (c[1], c[2])
            if key in seen or per_op.get(c[2], 0) >= 3: continue
            seen.add(key); per_op[c[2]] = per_op.get(c[2], 0) + 1; picked.append(c)
            if len(picked) >= per_file: break
        out.extend(picked)
    return out

def sh(cmd, cwd=None, env=None, timeout=3600):
    p = subprocess.run(cmd, shell=True, cwd=cwd, env=env, stdout=subprocess.PIPE, stderr=subprocess.STDOUT, text=True, timeout=timeout)
    return p.returncode, p.stdout

def main():
    a = sys.argv[1:]
    opt = lambda k, d: (a[a.index(k) + 1] if k in a else d)
    slot, of = int(opt("--slot", "1")), int(opt("--of", "1"))
    per_file, seed = int(opt("--per-file", "30")), int(opt("--seed", "1"))
    scr = "/var/tmp/sg-mt%d" % slot
    sh("git -C /repo worktree remove --force %s; rm -rf %s; git -C /repo worktree add --detach %s HEAD" % (scr, scr, scr))
    rng = random.Random(seed)
    cands = candidates(scr, rng, per_file)
    mine = [c for k, c in enumerate(cands) if k % of == slot - 1]
    os.makedirs(os.path.join(VERIF, "selftest", "mutation"), exist_ok=True)
    outp = os.path.join(VERIF, "selftest", "mutation", "results-%d.jsonl" % slot)
    done = set()
    if os.path.exists(outp):
        for l in open(outp):
            try: done.add(json.loads(l)["id"])
            except Exception: pass
    env = dict(os.environ, CARGO_NET_OFFLINE="true", CARGO_TARGET_DIR=scr + "-target")
    for (f, i, name, old, new) in mine:
        mid = hashlib.sha1(("%s:%d:%s:%s" % (f, i, name, new)).encode()).hexdigest()[:12]
        if mid in done: continue
        path = os.path.join(scr, f)
        lines = open(path).read().split("\n")
        if lines[i] != old:
            sh("git checkout -- .", cwd=scr); lines = open(path).read().split("\n")
        lines[i] = new
        open(path, "w").write("\n".join(lines))
        rec = {"id": mid, "file": f, "line": i + 1, "op": name, "old": old.strip()[:160], "new": new.strip()[:160]}
        t0 = time.time()
        rc, out = sh("timeout -k 5 400 cargo test --offline --features verif_hooks --lib 2>&1 | tail -30", cwd=scr, env=env, timeout=1800)
        m = re.search(r"test result: ok\. (\d+) passed", out)
        if "could not compile" in out or "error[" in out:
            rec["status"] = "not-compiling"
        elif not m or int(m.group(1)) < 229:
            rec["status"] = "killed-by-repo-tests"   # a failing test, or a hang (timeout)
        else:
            if True:
                killed_by = []
                env2 = dict(os.environ, VERIF_REPO=scr, VERIF_TIME_S="60")
                env2.pop("CARGO_TARGET_DIR", None)
                for p in FILES[f]:
                    rc2, out2 = sh("timeout -k 5 1200 ./check %s quick 2>&1 | tail -6" % p, cwd=VERIF, env=env2, timeout=2400)
                    if "VIOLATION property=" in out2:
                        sig = next((l.strip()[:200] for l in out2.splitlines() if "sig=" in l), "")
                        killed_by.append({"check": p, "sig": sig})
                        break
                    if "INCONCLUSIVE" in out2 and "build-failed" in out2:
                        killed_by.append({"check": p, "sig": "harness does not build against the mutant (public API changed)"}); break
                rec["status"] = "killed" if killed_by else "SURVIVED"
                rec["killed_by"] = killed_by
                rec["checks_run"] = FILES[f]
        rec["seconds"] = round(time.time() - t0, 1)
        with open(outp, "a") as fo: fo.write(json.dumps(rec) + "\n")
        print(rec["status"], f, i + 1, name, "|", rec["new"][:100], flush=True)
        sh("git checkout -- .", cwd=scr)
    sh("git -C /repo worktree remove --force %s; rm -rf %s" % (scr, scr))

if __name__ == "__main__":
    main()
