#!/bin/bash
shopt -s extglob
# usage: selftest/run_all.sh [pattern]   - runs every mutator selftest/patches/<prop>-*.sh against its property's quick check
# (scratch worktree only) and records the outcomes in selftest/results.json
cd /verif
for P in selftest/patches/${1:-*}.sh; do
  B=$(basename $P .sh); PROP=$(echo ${B%%-*} | tr a-z A-Z)
  OUT=$(selftest/mutant.sh $P $PROP 2>&1)
  LINE=$(echo "$OUT" | grep -E "^mutant=|MUTATOR|PATCH" | head -1)
  SIG=$(echo "$OUT" | grep "sig=" | head -1 | sed 's/ :: .*//' | sed 's/^ *//')
  echo "$LINE $SIG"
  python3 - "$B" "$PROP" "$LINE" "$SIG" <<'PY'
import json,sys,os,fcntl
lk=open('/verif/.work/selftest.lock','w'); fcntl.flock(lk,fcntl.LOCK_EX)
b,prop,line,sig=sys.argv[1:5]
p='/verif/selftest/results.json'
r=json.load(open(p)) if os.path.exists(p) else {}
r[b]={"property":prop,"result":line.split("prop=")[-1] if "prop=" in line else line,"first_signature":sig}
json.dump(r,open(p,'w'),indent=1,sort_keys=True)
PY
done
