#!/bin/bash
# usage: selftest/run_all.sh [pattern]   - runs every mutator selftest/patches/<prop>-*.sh against its property's quick check
cd /verif
for P in selftest/patches/${1:-*}.sh; do
  B=$(basename $P .sh); PROP=$(echo ${B%%-*} | tr a-z A-Z)
  selftest/mutant.sh $P $PROP 2>&1 | grep -E "^mutant=|MUTATOR|PATCH" 
done
