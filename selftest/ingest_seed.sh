#!/bin/bash
# usage: selftest/ingest_seed.sh <PROP> <seed-dir-with-_seed> <name> [extra PROP...]
# Confirms a sub-agent's seeded change (compiles, 229 tests pass, demo fails with / passes without), stores it under
# /verif/seeded/<name>/ and runs the named property checks against it (scratch worktree only, never /repo).
set -u
PROP=$1; SRC=$2; NAME=$3; shift 3
DST=/verif/seeded/$NAME
mkdir -p $DST
cp $SRC/_seed/patch.diff $DST/patch.diff
cp $SRC/_seed/demo.rs $DST/demo.rs 2>/dev/null
cp $SRC/_seed/notes.md $DST/notes.md 2>/dev/null
SLOT=${SEED_SLOT:-}
SCR=/var/tmp/sg-seed$SLOT
export CARGO_TARGET_DIR=/var/tmp/sg-seed-target$SLOT
git -C /repo worktree remove --force $SCR >/dev/null 2>&1; rm -rf $SCR
git -C /repo worktree add --detach $SCR HEAD >/dev/null 2>&1
cd $SCR
if ! git apply $DST/patch.diff; then echo "SEED $NAME: patch does not apply"; cd /; git -C /repo worktree remove --force $SCR; exit 2; fi
FEAT=""; grep -q verif_hooks $DST/demo.rs && FEAT="--features verif_hooks"
cp $DST/demo.rs src/seed_demo.rs; printf '\n#[cfg(test)]\nmod seed_demo;\n' >> src/lib.rs
W=$(cargo test --offline $FEAT 2>&1 | grep -E "^test result" | head -1)
WD=$(cargo test --offline $FEAT seed_demo 2>&1 | grep -E "^test result" | head -1)
git apply -R $DST/patch.diff
WO=$(cargo test --offline $FEAT seed_demo 2>&1 | grep -E "^test result" | head -1)
cd /verif
unset CARGO_TARGET_DIR
git -C /repo worktree remove --force $SCR >/dev/null 2>&1; rm -rf $SCR
echo "SEED $NAME: with patch, whole suite: $W"
echo "SEED $NAME: with patch, demo:        $WD"
echo "SEED $NAME: without patch, demo:     $WO"
RES=""
for P in $PROP "$@"; do
  R=$(MUT_SCR=/var/tmp/sg-mut${SLOT:-0} selftest/mutant.sh $DST/patch.diff $P 2>&1 | grep -E "^mutant=|sig=" | head -3)
  echo "$R"
  RES="$RES$P: $(echo "$R" | head -1 | sed 's/.*rc=/rc=/'); "
done
python3 - "$DST" "$PROP" "$W" "$WD" "$WO" "$RES" <<'PY'
import json,sys,os
dst,prop,w,wd,wo,res=sys.argv[1:7]
notes=open(os.path.join(dst,'notes.md')).read() if os.path.exists(os.path.join(dst,'notes.md')) else ''
json.dump({"breaks_property":prop,"source":"independent sub-agent given only the property text and a scratch worktree","needs_to_manifest":notes[:1500],
 "confirmed":{"suite_with_patch":w,"demo_with_patch":wd,"demo_without_patch":wo},"checks_run":res,
 "commands":["git apply patch.diff (scratch worktree)","cargo test --offline","cargo test --offline seed_demo","git apply -R patch.diff; cargo test --offline seed_demo","VERIF_REPO=<scratch> ./check <PROP> quick"]},open(os.path.join(dst,'meta.json'),'w'),indent=1)
PY
