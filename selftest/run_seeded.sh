#!/bin/bash
shopt -s extglob
# usage: selftest/run_seeded.sh [name-pattern]  - runs every /verif/seeded/<name>/patch.diff against the checks of the
# property it breaks (scratch worktree only) and records the outcome in meta.json ("detected_by").
cd /verif
for D in seeded/${1:-*}/; do
  N=$(basename $D); [ -f $D/patch.diff ] || continue
  # the check to run: the broken property's own, unless meta.json names a neighbouring check ("detect_with") because the
  # property's own oracle cannot see this change by construction (explained in the meta's "strengthening" text)
  PROP=$(python3 -c "import json;m=json.load(open('$D/meta.json'));print(m.get('detect_with') or m['breaks_property'])" 2>/dev/null || echo ${N%%-*})
  OUT=$(selftest/mutant.sh $D/patch.diff $PROP 2>&1)
  LINE=$(echo "$OUT" | grep -E "^mutant=" | head -1)
  SIG=$(echo "$OUT" | grep "sig=" | head -1 | sed 's/ :: .*//' | sed 's/^ *//')
  echo "$N: $LINE $SIG"
  python3 - "$D" "$PROP" "$LINE" "$SIG" <<'PY'
import json,sys,os,fcntl
lk=open('/verif/.work/selftest.lock','w'); fcntl.flock(lk,fcntl.LOCK_EX)
d,prop,line,sig=sys.argv[1:5]
p=os.path.join(d,'meta.json'); m=json.load(open(p)) if os.path.exists(p) else {"breaks_property":prop}
m["detected_by"]={"check":"./check %s quick"%prop,"result":line.split("prop=")[-1] if line else "not run","first_signature":sig}
json.dump(m,open(p,'w'),indent=1)
PY
done
