//! Workload generators shared by the monitors: the standard typed data tables (JSON- and
//! regex-backed), their input lines, typed expressions and SELECT / aggregate statements.

use crate::ast::*;
use crate::rng::Rng;
use crate::val::Ty;

#[derive(Clone, Debug)]
pub struct Schema { pub table: String, pub cols: Vec<(String, Ty)> }

impl Schema {
    pub fn of(&self, ty: &Ty) -> Vec<&str> { self.cols.iter().filter(|(_, t)| t == ty).map(|(n, _)| n.as_str()).collect() }
    pub fn ty_of(&self, name: &str) -> Option<&Ty> {
        let bare = name.rsplit('.').next().unwrap_or(name);
        self.cols.iter().find(|(n, _)| n == bare).map(|(_, t)| t)
    }
}

#[derive(Clone, Debug)]
pub struct StdTable { pub spec: TableSpec, pub schema: Schema, pub json: bool }

pub fn arr(t: Ty) -> Ty { Ty::Arr(Box::new(t)) }

/// All columns of the standard tables, in definition order.
pub fn std_columns() -> Vec<(&'static str, Ty)> {
    vec![("k", Ty::Text), ("g", Ty::Int), ("i", Ty::Int), ("r", Ty::Real), ("b", Ty::Bool), ("s", Ty::Text),
         ("ia", arr(Ty::Int)), ("sa", arr(Ty::Text)), ("ts", Ty::Ts), ("iv", Ty::Iv)]
}

/// A standard typed table named `name`: JSON-backed or regex-backed, over a random subset (>= 3) of the standard columns.
pub fn std_table(rng: &mut Rng, name: &str, json: bool, all_columns: bool) -> StdTable {
    let mut cols: Vec<(&'static str, Ty)> = std_columns();
    if !all_columns {
        // always keep k, g, i so that statements have something to group and aggregate on
        let mut keep = vec![cols[0].clone(), cols[1].clone(), cols[2].clone()];
        for c in cols.drain(3..) { if rng.chance(3, 5) { keep.push(c); } }
        cols = keep;
    }
    let schema = Schema { table: name.to_owned(), cols: cols.iter().map(|(n, t)| (n.to_string(), t.clone())).collect() };
    let mut spec = TableSpec { name: name.to_owned(), patterns: vec![], cols: vec![] };
    if json {
        for (n, t) in &cols {
            let modifier = match t { Ty::Ts | Ty::Iv => Modifier::Convert, _ => Modifier::None };
            spec.cols.push(ColSpec { name: n.to_string(), ty: t.clone(), src: Src::Json(vec![JsonStep::Field(n.to_string())]), modifier });
        }
    } else {
        // one pattern; every field optional:  k=<..>|g=<..>|...   groups are numbered in order of appearance
        let mut re = String::from("^");
        let mut group = 0u64;
        for (idx, (n, t)) in cols.iter().enumerate() {
            if idx > 0 { re.push_str("\\|"); }
            re.push_str(n); re.push('=');
            match t {
                Ty::Text => { re.push_str("([^|]*)"); group += 1; spec.cols.push(reg_col(n, t, group)); }
                Ty::Int => { re.push_str("(-?[0-9]+)?"); group += 1; spec.cols.push(reg_col(n, t, group)); }
                Ty::Real => { re.push_str("(-?[0-9.]+)?"); group += 1; spec.cols.push(reg_col(n, t, group)); }
                Ty::Bool => { re.push_str("(T)?"); group += 1; spec.cols.push(reg_col(n, t, group)); }
                Ty::Ts => { re.push_str("([0-9][0-9: -]*)?"); group += 1; spec.cols.push(reg_col(n, t, group)); }
                Ty::Iv => { re.push_str("(-?[0-9]+:[0-9]+:[0-9]+)?"); group += 1; spec.cols.push(reg_col(n, t, group)); }
                Ty::Arr(e) => {
                    let inner = if **e == Ty::Int { "(-?[0-9]+)?" } else { "([a-zA-Z]*)" };
                    let mut gs = Vec::new();
                    for slot in 0..3 { if slot > 0 { re.push(','); } re.push_str(inner); group += 1; gs.push(("line".to_owned(), group)); }
                    spec.cols.push(ColSpec { name: n.to_string(), ty: t.clone(), src: Src::Multi(gs), modifier: Modifier::None });
                }
            }
        }
        re.push('$');
        spec.patterns.push(PatSpec { name: "line".into(), regex: re, split: false });
    }
    StdTable { spec, schema, json }
}

fn reg_col(n: &str, t: &Ty, group: u64) -> ColSpec {
    ColSpec { name: n.to_string(), ty: t.clone(), src: Src::Group("line".into(), group), modifier: Modifier::None }
}

/// Cell content of a standard line (what the generator *meant*; the monitors never trust it for
/// expected values, they ask the engine's own extraction, but noise certification in C06 uses it).
#[derive(Clone, Debug, PartialEq)]
pub enum Cell { Null, Int(i64), Real(f64), Bool(bool), Text(String), IntArr(Vec<Option<i64>>), TextArr(Vec<Option<String>>), Ts(String), Iv(String) }

pub struct DataCfg {
    /// per mille NULL rate per column
    pub null_rate: Vec<u32>,
    pub hostile: bool,
    pub keys: usize,
    /// REAL cells are k/8 (exactly summable); INT cells are small
    pub exact: bool,
    /// INT cells (other than the key g) are mostly neighbours of 2^53 / 2^62: distinct integers that coincide as doubles
    pub big_ints: bool,
    /// REAL cells are mostly +0.0 / -0.0 (equal as values, different as printed)
    pub zeros: bool,
    /// INT cells (other than the key g) between 10^8 and 3*10^9 in magnitude: sums of their squares pass 2^53 but stay inside 64 bits
    pub mid_ints: bool,
    /// REAL cells are mostly whole numbers of magnitude 2^63 and beyond (distinct values that a detour through 64-bit integers merges)
    pub huge_reals: bool,
    /// REAL cells are mostly neighbouring doubles (0.3 and the next ones): distinct values one rounding step apart
    pub ulp_reals: bool,
}

impl DataCfg {
    pub fn random(rng: &mut Rng, ncols: usize, hostile: bool) -> DataCfg {
        let rates = [0u32, 0, 100, 300, 600, 900];
        DataCfg { null_rate: (0..ncols).map(|_| *rng.pick(&rates)).collect(), hostile, keys: 1 + rng.below(5), exact: true, big_ints: false, zeros: false, mid_ints: false, huge_reals: false, ulp_reals: false }
    }
}

pub const TEXT_POOL: &[&str] = &["a", "b", "ab", "A", "abc", "b c", "Zz", "10", "x9", "\u{e5}b", "q",
    // case mappings that are not one character to one character, or depend on the position in the word
    "\u{39f}\u{394}\u{39f}\u{3a3}", "Stra\u{df}e", "\u{130}x", "\u{1c5}", "\u{fb01}n",
    // characters that matter to the statement tokenizer when the text is written as a literal: quotes, backslashes (also last), comment and statement marks
    "it's", "C:\\logs\\", "a--b", "semi;colon", "say \"hi\"", "'quoted'", "\\",
    // white space at the ends (a TEXT value is its characters, also through casts and comparisons)
    " lead", "trail ", "\tboth\t"];
pub const TS_POOL: &[&str] = &["2021-03-04 05:06:07", "2021-03-04 05:06:08", "2020-02-29 23:59:59", "1999-12-31 00:00:00", "2021-03-05 00:00:00", "2022-11-30 12:30:00"];
pub const IV_POOL: &[&str] = &["0:00:00", "0:00:01", "1:02:03", "0:59:59", "24:00:00", "100:00:00", "0:01:00"];

pub fn std_cell(rng: &mut Rng, name: &str, ty: &Ty, cfg: &DataCfg, col_index: usize) -> Cell {
    if name != "k" || cfg.null_rate[col_index] >= 600 {
        if rng.chance(cfg.null_rate[col_index], 1000) { return Cell::Null; }
    } else if rng.chance(cfg.null_rate[col_index] / 2, 1000) { return Cell::Null; }
    match ty {
        Ty::Text => if name == "k" { Cell::Text(TEXT_POOL[rng.below(cfg.keys.min(TEXT_POOL.len()))].to_owned()) } else { Cell::Text(rng.pick(TEXT_POOL).to_string()) },
        Ty::Int => {
            if name == "g" { Cell::Int(rng.range(0, cfg.keys as i64)) }
            else if cfg.mid_ints && rng.chance(3, 4) { Cell::Int(*rng.pick(&[3_000_000_000i64, 95_000_000, -2_999_999_999, 123_456_789, 1_000_000_007, -100_000_001, 2_147_483_648, 94_906_267]) + rng.range(0, 3)) }
            else if cfg.big_ints && rng.chance(3, 4) { Cell::Int(*rng.pick(&[9007199254740992i64, 9007199254740993, 9007199254740994, 9007199254740991, -9007199254740992, -9007199254740993, 4611686018427387904, 4611686018427387905, 4611686018427387903, 36028797018963968, 36028797018963969, 36028797018963971])) }
            else if cfg.hostile && rng.chance(1, 6) { Cell::Int(*rng.pick(&[i64::MAX, i64::MIN, i64::MAX - 1, i64::MIN + 1, 1 << 62, -(1 << 62), 3037000500, 0, -1])) }
            else { Cell::Int(rng.range(-4, 9)) }
        }
        Ty::Real => {
            if cfg.hostile && rng.chance(1, 6) { Cell::Real(*rng.pick(&[1e308, -1e308, 0.0, 1e-300, 9007199254740993.0])) }
            else if cfg.huge_reals && rng.chance(3, 4) { Cell::Real(*rng.pick(&[1e19, 2e19, 3e19, -1e19, -2e19, 9223372036854775808.0, 18446744073709551616.0, 1e300, 2e300, 9223372036854777856.0])) }
            else if cfg.ulp_reals && rng.chance(3, 4) { Cell::Real(*rng.pick(&[0.3, 0.30000000000000004, 0.3000000000000001, 0.29999999999999993, 1.0, 1.0000000000000002, 0.9999999999999999, -0.3, -0.30000000000000004])) }
            else if cfg.zeros && rng.chance(3, 4) { Cell::Real(if rng.chance(1, 2) { 0.0 } else { -0.0 }) }
            else if rng.chance(1, 16) { Cell::Real(-0.0) } // equal to 0.0 as a key, a group member and a join partner
            else { Cell::Real(rng.range(-24, 40) as f64 / 8.0) }
        }
        Ty::Bool => Cell::Bool(rng.chance(1, 2)),
        Ty::Ts => Cell::Ts(rng.pick(TS_POOL).to_string()),
        Ty::Iv => Cell::Iv(rng.pick(IV_POOL).to_string()),
        Ty::Arr(e) => {
            let n = 3;
            if **e == Ty::Int { Cell::IntArr((0..n).map(|_| if rng.chance(1, 4) { None } else { Some(rng.range(-2, 5)) }).collect()) }
            else { Cell::TextArr((0..n).map(|_| if rng.chance(1, 4) { None } else { Some(rng.pick(&["a", "b", "c", "ab"]).to_string()) }).collect()) }
        }
    }
}

pub fn json_str(s: &str) -> String { serde_json::to_string(s).unwrap() }

pub fn render_line(t: &StdTable, cells: &[Cell]) -> String {
    if t.json {
        let mut parts = Vec::new();
        for ((n, _), c) in t.schema.cols.iter().zip(cells) {
            let v = match c {
                Cell::Null => continue,
                Cell::Int(i) => i.to_string(),
                Cell::Real(x) => fmt_json_real(*x),
                Cell::Bool(b) => b.to_string(),
                Cell::Text(s) | Cell::Ts(s) | Cell::Iv(s) => json_str(s),
                Cell::IntArr(xs) => format!("[{}]", xs.iter().map(|x| x.map(|i| i.to_string()).unwrap_or("null".into())).collect::<Vec<_>>().join(",")),
                Cell::TextArr(xs) => format!("[{}]", xs.iter().map(|x| x.as_ref().map(|s| json_str(s)).unwrap_or("null".into())).collect::<Vec<_>>().join(",")),
            };
            parts.push(format!("{}:{}", json_str(n), v));
        }
        format!("{{{}}}", parts.join(","))
    } else {
        let mut parts = Vec::new();
        for ((n, _), c) in t.schema.cols.iter().zip(cells) {
            let v = match c {
                Cell::Null => String::new(),
                Cell::Int(i) => i.to_string(),
                Cell::Real(x) => fmt_plain_real(*x),
                Cell::Bool(b) => if *b { "T".into() } else { String::new() },
                Cell::Text(s) | Cell::Ts(s) | Cell::Iv(s) => s.clone(),
                Cell::IntArr(xs) => xs.iter().map(|x| x.map(|i| i.to_string()).unwrap_or_default()).collect::<Vec<_>>().join(","),
                Cell::TextArr(xs) => xs.iter().map(|x| x.clone().unwrap_or_default()).collect::<Vec<_>>().join(","),
            };
            parts.push(format!("{}={}", n, v));
        }
        parts.join("|")
    }
}

pub fn fmt_json_real(x: f64) -> String {
    if x == x.trunc() && x.abs() < 1e15 { format!("{:.1}", x) } else { format!("{:?}", x) }
}

fn fmt_plain_real(x: f64) -> String {
    // regex flavour accepts only digits and '.', so big magnitudes are printed positionally
    if x.abs() >= 1e15 || (x != 0.0 && x.abs() < 1e-4) { format!("{:.0}", x) } else if x == x.trunc() { format!("{:.1}", x) } else { format!("{}", x) }
}

pub fn std_lines(rng: &mut Rng, t: &StdTable, n: usize, cfg: &DataCfg) -> Vec<String> {
    (0..n).map(|_| {
        let cells: Vec<Cell> = t.schema.cols.iter().enumerate().map(|(ci, (name, ty))| std_cell(rng, name, ty, cfg, ci)).collect();
        render_line(t, &cells)
    }).collect()
}

// ---------------------------------------------------------------------------------------------
// expressions

#[derive(Clone, Debug)]
pub struct ExprCfg {
    pub max_depth: u32,
    /// per mille probability that a child is generated with a deliberately wrong type
    pub ill_typed: u32,
    /// per mille probability of a NULL literal leaf
    pub null_leaf: u32,
    /// use boundary literals and no-value operands (zero divisors, overflow)
    pub hostile: bool,
    /// allow now()
    pub allow_now: bool,
    /// use README spellings that the engine may not know (regex_matches, 7-arg make_timestamp)
    pub readme_names: bool,
    /// generate IN lists with one element
    pub single_in: bool,
}

impl Default for ExprCfg {
    fn default() -> Self { ExprCfg { max_depth: 4, ill_typed: 60, null_leaf: 60, hostile: false, allow_now: false, readme_names: true, single_in: false } }
}

pub const ALL_SCALAR: &[Ty] = &[Ty::Int, Ty::Real, Ty::Bool, Ty::Text, Ty::Ts, Ty::Iv];

pub fn random_ty(rng: &mut Rng) -> Ty {
    match rng.below(10) { 0 | 1 => Ty::Int, 2 => Ty::Real, 3 | 4 => Ty::Bool, 5 => Ty::Text, 6 => Ty::Ts, 7 => Ty::Iv, 8 => arr(Ty::Int), _ => arr(Ty::Text) }
}

pub fn literal(rng: &mut Rng, ty: &Ty, cfg: &ExprCfg) -> E {
    match ty {
        Ty::Int => {
            if cfg.hostile && rng.chance(1, 4) {
                int(*rng.pick(&[i64::MAX, i64::MIN, i64::MAX - 1, 1 << 62, 1 << 53, (1 << 53) + 1, 4294967297, 0, -1, 3037000500, 64, 63]))
            } else { int(rng.range(-3, 12)) }
        }
        Ty::Real => {
            if cfg.hostile && rng.chance(1, 4) {
                let t = *rng.pick(&["1e308", "-1e308", "inf", "-inf", "NaN", "-0.0", "1e-320", "9007199254740993"]);
                E::Cast(b(text(t)), Ty::Real)
            } else { real(rng.range(-16, 40) as f64 / 8.0) }
        }
        Ty::Bool => E::Bool(rng.chance(1, 2)),
        Ty::Text => {
            if rng.chance(1, 8) { text(*rng.pick(&["", "it's", "back\\slash", "semi;colon", "--dash", "\u{1F600}", "1.5", "true", "2021-03-04 05:06:07", "12", "-7"])) }
            else { text(*rng.pick(TEXT_POOL)) }
        }
        Ty::Ts => {
            let t = if cfg.hostile && rng.chance(1, 5) { *rng.pick(&["9999-12-31 23:59:59", "0001-01-01 00:00:00", "2021-03-28 02:30:00", "2021-10-31 02:30:00"]) } else { *rng.pick(TS_POOL) };
            E::Cast(b(text(t)), Ty::Ts)
        }
        Ty::Iv => {
            let t = if cfg.hostile && rng.chance(1, 5) { *rng.pick(&["2562047788015:00:00", "-2562047788015:00:00", "0:00:9223372036854775807", "99999999999:0:0", "0:307445734561825861:0", "0:9223372036854775807:0", "1:-153722867280912931:0"]) } else { *rng.pick(IV_POOL) };
            E::Cast(b(text(t)), Ty::Iv)
        }
        Ty::Arr(e) => {
            let n = 1 + rng.below(3);
            E::ArrayLit((0..n).map(|_| literal(rng, e, cfg)).collect())
        }
    }
}

fn leaf(rng: &mut Rng, s: &Schema, ty: &Ty, cfg: &ExprCfg) -> E {
    if rng.chance(cfg.null_leaf, 1000) { return E::Null; }
    let cols = s.of(ty);
    if !cols.is_empty() && rng.chance(2, 3) {
        let c = *rng.pick(&cols);
        if rng.chance(1, 10) { return E::Col(format!("{}.{}", s.table, c)); }
        return col(c);
    }
    if *ty == Ty::Text && rng.chance(1, 12) { return col("input"); }
    if rng.chance(1, 60) { return col("nosuchcolumn"); }
    literal(rng, ty, cfg)
}

pub fn gen_expr(rng: &mut Rng, s: &Schema, ty: &Ty, depth: u32, cfg: &ExprCfg) -> E {
    if depth == 0 || rng.chance(1, 5) { return leaf(rng, s, ty, cfg); }
    let d = depth - 1;
    // child generator with a small rate of deliberate type errors
    macro_rules! g {
        ($t:expr) => {{
            let want: Ty = $t;
            let actual = if rng.chance(cfg.ill_typed, 1000) { random_ty(rng) } else { want };
            gen_expr(rng, s, &actual, d, cfg)
        }};
    }
    let numeric = |rng: &mut Rng| if rng.chance(2, 3) { Ty::Int } else { Ty::Real };
    match ty {
        Ty::Int => match rng.below(13) {
            0..=3 => {
                let o = *rng.pick(&["+", "-", "*", "/"]);
                let l = g!(Ty::Int);
                // no-value operands: zero divisor, and the one overflowing division i64::MIN / -1
                if cfg.hostile && o == "/" && rng.chance(1, 6) { return bin("/", if rng.chance(1, 2) { int(i64::MIN) } else { l }, int(-1)); }
                let r = if cfg.hostile && o == "/" && rng.chance(1, 3) { int(0) } else { g!(Ty::Int) };
                bin(o, l, r)
            }
            4 => E::Neg(b(g!(Ty::Int))),
            5 => call("abs", vec![g!(Ty::Int)]),
            6 => call(*rng.pick(&["least", "greatest"]), vec![g!(Ty::Int), g!(Ty::Int)]),
            7 => call("length", vec![g!(Ty::Text)]),
            8 => call("array_length", vec![g!(arr(if rng.chance(1, 2) { Ty::Int } else { Ty::Text }))]),
            9 => E::Extract(rng.pick(&["year", "month", "day", "hour", "minute", "second"]).to_string(), b(g!(Ty::Ts))),
            10 => E::Index(b(g!(arr(Ty::Int))), b(if cfg.hostile && rng.chance(1, 3) { int(*rng.pick(&[0, -1, i64::MIN, 1 << 62, 100])) } else { g!(Ty::Int) })),
            11 => if rng.chance(1, 2) { E::Cast(b(g!(Ty::Text)), Ty::Int) } else { E::Cast(b(g!(Ty::Iv)), Ty::Int) },
            _ => gen_case(rng, s, ty, d, cfg),
        },
        Ty::Real => match rng.below(10) {
            0..=2 => { let o = *rng.pick(&["+", "-", "*", "/"]); bin(o, g!(Ty::Real), g!(Ty::Real)) }
            3 => { let o = *rng.pick(&["+", "-", "*", "/"]); if rng.chance(1, 2) { bin(o, g!(Ty::Int), g!(Ty::Real)) } else { bin(o, g!(Ty::Real), g!(Ty::Int)) } }
            4 => E::Neg(b(g!(Ty::Real))),
            5 => call(*rng.pick(&["abs", "sqrt"]), vec![g!(Ty::Real)]),
            6 => call("pow", vec![g!(Ty::Real), g!(Ty::Real)]),
            7 => call(*rng.pick(&["least", "greatest"]), vec![g!(Ty::Real), g!(Ty::Real)]),
            8 => match rng.below(3) { 0 => E::Cast(b(g!(Ty::Text)), Ty::Real), 1 => E::Cast(b(g!(Ty::Iv)), Ty::Real), _ => E::Extract("epoch".into(), b(g!(Ty::Ts))) },
            _ => gen_case(rng, s, ty, d, cfg),
        },
        Ty::Bool => match rng.below(14) {
            0..=3 => {
                let o = *rng.pick(&["=", "!=", "<", "<=", ">", ">="]);
                let t = match rng.below(9) { 0 | 1 => Ty::Int, 2 => Ty::Real, 3 => Ty::Text, 4 => Ty::Ts, 5 => Ty::Iv, 6 => Ty::Bool, 7 => arr(Ty::Int), _ => Ty::Int };
                if rng.chance(1, 6) { let a = numeric(rng); let c = numeric(rng); bin(o, g!(a), g!(c)) }
                else if t == Ty::Ts && rng.chance(1, 3) { if rng.chance(1, 2) { bin(o, g!(Ty::Ts), text(*rng.pick(TS_POOL))) } else { bin(o, text(*rng.pick(TS_POOL)), g!(Ty::Ts)) } }
                else { bin(o, g!(t.clone()), g!(t)) }
            }
            4 | 5 => bin(*rng.pick(&["AND", "OR"]), g!(Ty::Bool), g!(Ty::Bool)),
            6 => E::Not(b(g!(Ty::Bool))),
            7 => { let t = random_ty(rng); E::Is(rng.chance(1, 2), b(g!(t)), b(E::Null)) }
            8 => { let t = random_ty(rng); E::Is(rng.chance(1, 2), b(g!(t.clone())), b(g!(t))) }
            9 | 10 => {
                let t = match rng.below(4) { 0 => Ty::Text, 1 => Ty::Real, _ => Ty::Int };
                // long lists of plain literals (where an implementation might switch from element-wise comparison to a lookup): 9-24
                // non-negative literals of the operand's type or of the other numeric type, TEXT literals against a TIMESTAMP
                // operand, and - where ill-typed expressions are wanted - TEXT literals against a number
                if rng.chance(1, 4) {
                    let n = 9 + rng.below(16);
                    let (ot, lt) = match rng.below(8) { 0 | 1 => (Ty::Int, Ty::Int), 2 => (Ty::Int, Ty::Real), 3 | 4 => (Ty::Real, Ty::Int), 5 => (Ty::Real, Ty::Real), 6 => (Ty::Ts, Ty::Text), _ => (Ty::Text, Ty::Text) };
                    let lt = if cfg.ill_typed > 0 && ot != Ty::Text && ot != Ty::Ts && rng.chance(1, 6) { Ty::Text } else { lt };
                    let vs: Vec<E> = (0..n).map(|_| match (&ot, &lt) {
                        (Ty::Ts, _) => text(*rng.pick(TS_POOL)),
                        (_, Ty::Int) => E::Int(rng.below(13) as u64),
                        (_, Ty::Real) => real(rng.below(41) as f64 / 8.0),
                        _ => text(*rng.pick(TEXT_POOL)),
                    }).collect();
                    return E::In(rng.chance(1, 2), b(g!(ot)), vs);
                }
                let n = if cfg.single_in && rng.chance(1, 3) { 1 } else { 2 + rng.below(3) };
                let mut vs: Vec<E> = (0..n).map(|_| g!(t.clone())).collect();
                if rng.chance(1, 5) { let at = rng.below(vs.len()); vs[at] = E::Null; }
                E::In(rng.chance(1, 2), b(g!(t)), vs)
            }
            11 => {
                let name = if cfg.readme_names && rng.chance(1, 2) { "regex_matches" } else { "regexp_matches" };
                let pat = if rng.chance(1, 10) { "(" } else { *rng.pick(&["a", "^a", "b$", "[0-9]+", "^$", "a|b", ".b"]) };
                // the pattern is usually a literal; it may as well come from the row (another pattern on every row)
                if rng.chance(1, 4) { call(name, vec![g!(Ty::Text), g!(Ty::Text)]) } else { call(name, vec![g!(Ty::Text), text(pat)]) }
            }
            12 => leaf(rng, s, ty, cfg),
            _ => gen_case(rng, s, ty, d, cfg),
        },
        Ty::Text => match rng.below(7) {
            0 | 1 => call(*rng.pick(&["upper", "lower"]), vec![g!(Ty::Text)]),
            2 => { let t = random_ty(rng); E::Cast(b(g!(t)), Ty::Text) }
            3 => E::Index(b(g!(arr(Ty::Text))), b(g!(Ty::Int))),
            4 => gen_case(rng, s, ty, d, cfg),
            _ => leaf(rng, s, ty, cfg),
        },
        Ty::Ts => match rng.below(9) {
            0 => bin("+", g!(Ty::Ts), g!(Ty::Iv)),
            1 => bin("+", g!(Ty::Iv), g!(Ty::Ts)),
            2 => bin("-", g!(Ty::Ts), g!(Ty::Iv)),
            3 => call(*rng.pick(&["least", "greatest"]), vec![g!(Ty::Ts), g!(Ty::Ts)]),
            4 => call("date_trunc", vec![text(*rng.pick(&["year", "month", "day", "hour", "minute", "second", "week"])), g!(Ty::Ts)]),
            5 => {
                let mut args = vec![int(rng.range(1990, 2030)), int(rng.range(0, 13)), int(rng.range(0, 32)), int(rng.range(0, 24)), int(rng.range(0, 60)), int(rng.range(0, 60)), int(rng.range(0, 999))];
                if !cfg.readme_names || rng.chance(1, 2) { args.push(int(0)); }
                if cfg.hostile && rng.chance(1, 3) { let at = rng.below(7); args[at] = int(*rng.pick(&[4294967297, -1, i64::MAX, 1 << 32])); }
                call("make_timestamp", args)
            }
            6 if cfg.allow_now => call("now", vec![]),
            7 => gen_case(rng, s, ty, d, cfg),
            _ => leaf(rng, s, ty, cfg),
        },
        Ty::Iv => match rng.below(8) {
            0 => bin("-", g!(Ty::Ts), g!(Ty::Ts)),
            1 => bin(*rng.pick(&["+", "-"]), g!(Ty::Iv), g!(Ty::Iv)),
            2 => E::Neg(b(g!(Ty::Iv))),
            3 => call("abs", vec![g!(Ty::Iv)]),
            4 => call(*rng.pick(&["least", "greatest"]), vec![g!(Ty::Iv), g!(Ty::Iv)]),
            5 => gen_case(rng, s, ty, d, cfg),
            _ => leaf(rng, s, ty, cfg),
        },
        Ty::Arr(e) => match rng.below(8) {
            0 => call("array_unique", vec![g!(ty.clone())]),
            1 => call("array_cat", vec![g!(ty.clone()), g!(ty.clone())]),
            2 => call("array_append", vec![g!(ty.clone()), g!((**e).clone())]),
            3 => call("array_prepend", vec![g!((**e).clone()), g!(ty.clone())]),
            4 => { let n = 1 + rng.below(3); E::ArrayLit((0..n).map(|_| g!((**e).clone())).collect()) }
            _ => leaf(rng, s, ty, cfg),
        },
    }
}

fn gen_case(rng: &mut Rng, s: &Schema, ty: &Ty, d: u32, cfg: &ExprCfg) -> E {
    let n = 1 + rng.below(3);
    let mut clauses = Vec::new();
    for _ in 0..n { clauses.push((gen_expr(rng, s, &Ty::Bool, d, cfg), gen_expr(rng, s, ty, d, cfg))); }
    E::Case(clauses, b(gen_expr(rng, s, ty, d, cfg)))
}

// ---------------------------------------------------------------------------------------------
// statements

#[derive(Clone, Debug)]
pub struct StmtCfg { pub expr: ExprCfg, pub allow_distinct: bool, pub allow_limit: bool, pub allow_star: bool, pub max_limit: u64 }

impl Default for StmtCfg {
    fn default() -> Self { StmtCfg { expr: ExprCfg::default(), allow_distinct: true, allow_limit: false, allow_star: true, max_limit: 8 } }
}

pub fn gen_select(rng: &mut Rng, s: &Schema, cfg: &StmtCfg) -> Sel {
    let mut sel = Sel { from: s.table.clone(), ..Default::default() };
    if cfg.allow_star && rng.chance(1, 8) {
        sel.projs.push((E::Star, None));
    } else {
        let n = 1 + rng.below(4);
        for i in 0..n {
            let ty = if rng.chance(1, 3) { s.cols[rng.below(s.cols.len())].1.clone() } else { random_ty(rng) };
            let depth = rng.below(cfg.expr.max_depth as usize + 1) as u32;
            let e = gen_expr(rng, s, &ty, depth, &cfg.expr);
            let alias = if rng.chance(1, 3) { Some(format!("c{}", i)) } else { None };
            sel.projs.push((e, alias));
        }
    }
    if rng.chance(3, 5) { let depth = 1 + rng.below(cfg.expr.max_depth as usize) as u32; sel.filter = Some(gen_expr(rng, s, &Ty::Bool, depth, &cfg.expr)); }
    if cfg.allow_distinct && rng.chance(1, 6) { sel.distinct = true; }
    if cfg.allow_limit && rng.chance(1, 3) { sel.limit = Some(rng.below(cfg.max_limit as usize + 1) as u64); }
    sel
}

/// aggregate argument of a fitting type
fn agg_arg(rng: &mut Rng, s: &Schema, ty: &Ty, cfg: &ExprCfg) -> E {
    let cols = s.of(ty);
    if !cols.is_empty() && rng.chance(4, 5) { return col(*rng.pick(&cols)); }
    let mut c = cfg.clone(); c.ill_typed = 0; c.null_leaf = 150;
    gen_expr(rng, s, ty, 1, &c)
}

pub const PERCENTILES: &[f64] = &[0.0, 0.25, 0.5, 0.9, 1.0];

pub fn gen_agg_call(rng: &mut Rng, s: &Schema, cfg: &ExprCfg, order_insensitive_only: bool) -> E {
    // SUM / AVG also exist for INTERVAL (running sums of another variant)
    let summable = |rng: &mut Rng| match rng.below(7) { 0 => Ty::Iv, 1 | 2 => Ty::Real, _ => Ty::Int };
    let pick = rng.below(if order_insensitive_only { 13 } else { 16 });
    match pick {
        0 => E::Agg("count".into(), false, if rng.chance(1, 2) { vec![E::Star] } else { vec![] }),
        1 => { let c = &s.cols[rng.below(s.cols.len())]; E::Agg("count".into(), false, vec![col(&c.0)]) }
        2 => { let c = &s.cols[rng.below(s.cols.len())]; E::Agg("count".into(), true, vec![col(&c.0)]) }
        3 => { let t = summable(rng); E::Agg("sum".into(), false, vec![agg_arg(rng, s, &t, cfg)]) }
        4 | 5 => {
            let t = match rng.below(6) { 0 | 1 => Ty::Int, 2 => Ty::Real, 3 => Ty::Text, 4 => Ty::Ts, _ => Ty::Iv };
            E::Agg(rng.pick(&["min", "max"]).to_string(), false, vec![agg_arg(rng, s, &t, cfg)])
        }
        6 => { let t = summable(rng); E::Agg("avg".into(), false, vec![agg_arg(rng, s, &t, cfg)]) }
        // (over INTERVAL they never have a value - open finding C04 - so there is nothing to compare between orders)
        7 => { let t = if order_insensitive_only { if rng.chance(2, 3) { Ty::Int } else { Ty::Real } } else { summable(rng) }; E::Agg(rng.pick(&["stddev", "variance"]).to_string(), false, vec![agg_arg(rng, s, &t, cfg)]) }
        8 | 9 => { let t = match rng.below(4) { 0 => Ty::Real, 1 => Ty::Text, _ => Ty::Int }; E::Agg("percentile".into(), false, vec![agg_arg(rng, s, &t, cfg), E::Real(*rng.pick(PERCENTILES))]) }
        // sometimes over a condition that has no value on some rows (division by a column that is 0 there)
        10 => E::Agg(rng.pick(&["bool_and", "bool_or"]).to_string(), false, vec![if rng.chance(1, 3) { bin(*rng.pick(&[">=", "<", "="]), bin("/", int(120), col(&named(s, "i", &Ty::Int))), int(*rng.pick(&[10, 30, 60]))) } else { agg_arg(rng, s, &Ty::Bool, cfg) }]),
        11 => {
            // arithmetic wrapper around an aggregate
            let inner = E::Agg("sum".into(), false, vec![agg_arg(rng, s, &Ty::Int, cfg)]);
            match rng.below(4) { 0 => bin("*", inner, int(2)), 1 => bin("+", int(1), inner), 2 => bin("/", int(100), inner), _ => bin("-", inner, int(1)) }
        }
        12 => {
            // ... around COUNT: COUNT over a column is 0 (not NULL) for a group in which the column is NULL everywhere
            let inner = if rng.chance(1, 2) { E::Agg("count".into(), false, vec![E::Star]) } else { let c = &s.cols[rng.below(s.cols.len())]; E::Agg("count".into(), rng.chance(1, 4), vec![col(&c.0)]) };
            // the count as a divisor: the statement has no result (an error) as long as some group's count is 0 / 1
            match rng.below(6) { 0 => bin("*", inner, int(10)), 1 => bin("+", int(1), inner), 2 => bin("-", bin("*", inner, int(10)), int(3)), 3 => bin("/", int(1000), inner), 4 => bin("/", int(100), bin("-", inner, int(1))), _ => bin("-", int(100), inner) }
        }
        13 => E::Agg("string_agg".into(), false, vec![agg_arg(rng, s, &Ty::Text, cfg), text(*rng.pick(&[",", "", "; ", "-"]))]),
        14 => { let t = match rng.below(3) { 0 => Ty::Text, 1 => Ty::Real, _ => Ty::Int }; E::Agg("array_agg".into(), false, vec![agg_arg(rng, s, &t, cfg)]) }
        _ => E::Agg("string_agg".into(), false, vec![agg_arg(rng, s, &Ty::Text, cfg), text(",")]),
    }
}

pub struct AggCfg { pub expr: ExprCfg, pub order_insensitive_only: bool, pub allow_having: bool, pub allow_distinct: bool, pub allow_limit: bool }

impl Default for AggCfg {
    fn default() -> Self { AggCfg { expr: ExprCfg { ill_typed: 0, ..ExprCfg::default() }, order_insensitive_only: false, allow_having: true, allow_distinct: false, allow_limit: false } }
}

/// the column called `pref` if the schema has it, else the first column of that type (schemas of joined tables use prefixed names)
pub fn named(s: &Schema, pref: &str, ty: &Ty) -> String {
    if s.cols.iter().any(|(n, _)| n == pref) { return pref.to_owned(); }
    s.cols.iter().find(|(n, t)| t == ty && n.ends_with(&format!("_{}", pref))).or_else(|| s.cols.iter().find(|(_, t)| t == ty)).map(|(n, _)| n.clone()).unwrap_or_else(|| pref.to_owned())
}

pub fn gen_aggregate(rng: &mut Rng, s: &Schema, cfg: &AggCfg) -> Sel {
    let (ck, cg, ci) = (named(s, "k", &Ty::Text), named(s, "g", &Ty::Int), named(s, "i", &Ty::Int));
    let (ck, cg, ci) = (ck.as_str(), cg.as_str(), ci.as_str());
    let mut sel = Sel { from: s.table.clone(), ..Default::default() };
    // group keys: columns or small expressions
    let mut keys: Vec<E> = Vec::new();
    if rng.chance(5, 6) {
        let nk = 1 + rng.below(2);
        for _ in 0..nk {
            let k = match rng.below(6) {
                0 | 1 => col(ck), 2 | 3 => col(cg),
                4 => { let c = &s.cols[rng.below(s.cols.len())]; if matches!(c.1, Ty::Arr(_)) { col(cg) } else { col(&c.0) } }
                _ => bin("*", col(cg), int(2)),
            };
            if !keys.contains(&k) { keys.push(k); }
        }
        sel.group_by = Some(keys.clone());
    }
    let nagg = 1 + rng.below(4);
    let mut items: Vec<(E, Option<String>)> = Vec::new();
    for i in 0..nagg {
        let a = gen_agg_call(rng, s, &cfg.expr, cfg.order_insensitive_only);
        items.push((a, if rng.chance(1, 2) { Some(format!("a{}", i)) } else { None }));
    }
    // key expressions in the select list, mixed among the aggregates
    for k in &keys { if rng.chance(3, 4) { let at = rng.below(items.len() + 1); items.insert(at, (k.clone(), None)); } }
    sel.projs = items;
    if rng.chance(2, 5) {
        let mut c = cfg.expr.clone(); c.max_depth = 2;
        let fd = 1 + rng.below(2) as u32;
        sel.filter = Some(gen_expr(rng, s, &Ty::Bool, fd, &c));
    }
    if cfg.allow_having && rng.chance(1, 3) {
        let hagg = match rng.below(4) {
            0 => E::Agg("count".into(), false, vec![E::Star]),
            1 => E::Agg("sum".into(), false, vec![col(ci)]),
            2 => E::Agg("max".into(), false, vec![col(ci)]),
            _ => E::Agg("count".into(), false, vec![col(&s.cols[rng.below(s.cols.len())].0)]),
        };
        let cmp = bin(*rng.pick(&[">", ">=", "<", "=", "!="]), hagg, int(rng.range(0, 6)));
        // sometimes two or three hidden aggregates in one HAVING (each has a slot of its own in the group's state)
        let cmp = if rng.chance(1, 3) {
            let second = bin(*rng.pick(&["<", ">=", "!="]), E::Agg(rng.pick(&["sum", "min", "max"]).to_string(), false, vec![col(cg)]), int(rng.range(0, 12)));
            let both = bin(*rng.pick(&["AND", "OR"]), cmp, second);
            if rng.chance(1, 3) { bin("AND", both, bin(">=", E::Agg("count".into(), true, vec![col(ci)]), int(rng.range(0, 3)))) } else { both }
        } else { cmp };
        sel.having = Some(if !keys.is_empty() && matches!(keys[0], E::Col(_)) && rng.chance(1, 3) {
            let keycond = match &keys[0] { E::Col(n) if n == ck => bin("!=", keys[0].clone(), text("a")), E::Col(n) if n == cg => bin(">=", keys[0].clone(), int(1)), _ => E::Is(true, b(keys[0].clone()), b(E::Null)) };
            // (the key named before or after the aggregates: hidden aggregates are numbered in the order the clause names things)
            if rng.chance(1, 2) { bin(*rng.pick(&["AND", "OR"]), keycond, cmp) } else { bin(*rng.pick(&["AND", "OR"]), cmp, keycond) }
        } else { cmp });
    }
    if cfg.allow_distinct && rng.chance(1, 4) { sel.distinct = true; }
    if cfg.allow_limit && rng.chance(1, 3) { sel.limit = Some(rng.below(5) as u64); }
    sel
}

/// groups the statement by one given column instead of its generated keys (the key shown first; a HAVING that may name the old keys is dropped)
pub fn rekey(sel: &mut Sel, key: &str) {
    let old = sel.group_by.take().unwrap_or_default();
    sel.projs.retain(|(e, _)| !old.contains(e));
    sel.projs.insert(0, (col(key), None));
    sel.group_by = Some(vec![col(key)]);
    sel.having = None;
}

/// statements whose result over integers of 2^53..2^62 depends on rounding or overflows in some orders only
pub fn big_int_risky(s: &Sel) -> bool {
    let txt = s.text(Paren::Full);
    txt.contains("stddev") || txt.contains("variance") || txt.contains("sum") || txt.contains("avg") || txt.contains(" * ") || txt.contains(" + ") || txt.contains(" - ") || txt.contains("pow")
}

// ---------------------------------------------------------------------------------------------
// the intended document of a JSON-flavoured standard line (used to certify noise lines in C06)

pub fn cells_to_jv(t: &StdTable, cells: &[Cell]) -> crate::refx::JV {
    use crate::refx::JV;
    let mut fields = Vec::new();
    for ((n, _), c) in t.schema.cols.iter().zip(cells) {
        let v = match c {
            Cell::Null => continue,
            Cell::Int(i) => JV::Num(i.to_string()),
            Cell::Real(x) => JV::Num(fmt_json_real(*x)),
            Cell::Bool(b) => JV::Bool(*b),
            Cell::Text(s) | Cell::Ts(s) | Cell::Iv(s) => JV::Str(s.clone()),
            Cell::IntArr(xs) => JV::Arr(xs.iter().map(|x| x.map(|i| JV::Num(i.to_string())).unwrap_or(JV::Null)).collect()),
            Cell::TextArr(xs) => JV::Arr(xs.iter().map(|x| x.as_ref().map(|s| JV::Str(s.clone())).unwrap_or(JV::Null)).collect()),
        };
        fields.push((n.clone(), v));
    }
    JV::Obj(fields)
}
