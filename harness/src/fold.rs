//! Reference fold for aggregate statements (DESIGN Appendix A.5). Consumes the *engine-evaluated* per-row key
//! and argument values (layering: expression semantics are C03's business) and produces, per group, an accept
//! set for every cell of the result table.

use std::cmp::Ordering;

use sqlgrep::model::{Aggregate, AggregateStatement, ArithmeticOperator, CompareOperator, ExpressionTree, BooleanOperator};

use crate::sem::{self, Expect, Outcome};
use crate::val::*;

/// the argument expression of an aggregate (None for COUNT(*))
pub fn aggregate_argument(a: &Aggregate) -> Option<ExpressionTree> {
    match a {
        Aggregate::GroupKey(e) => Some(e.clone()),
        Aggregate::Count(None, _) => None,
        Aggregate::Count(Some(c), _) => Some(ExpressionTree::ColumnAccess(c.clone())),
        Aggregate::Min(e) | Aggregate::Max(e) | Aggregate::Sum(e) | Aggregate::Average(e) | Aggregate::StandardDeviation(e, _) | Aggregate::Percentile(e, _)
        | Aggregate::BoolAnd(e) | Aggregate::BoolOr(e) | Aggregate::CollectArray(e) | Aggregate::CollectString(e, _) => Some(e.clone()),
    }
}

pub fn aggregate_kind(a: &Aggregate) -> &'static str {
    match a {
        Aggregate::GroupKey(_) => "key", Aggregate::Count(None, _) => "count(*)", Aggregate::Count(Some(_), false) => "count(col)", Aggregate::Count(Some(_), true) => "count(distinct)",
        Aggregate::Min(_) => "min", Aggregate::Max(_) => "max", Aggregate::Sum(_) => "sum", Aggregate::Average(_) => "avg",
        Aggregate::StandardDeviation(_, false) => "stddev", Aggregate::StandardDeviation(_, true) => "variance", Aggregate::Percentile(_, _) => "percentile",
        Aggregate::BoolAnd(_) => "bool_and", Aggregate::BoolOr(_) => "bool_or", Aggregate::CollectArray(_) => "array_agg", Aggregate::CollectString(_, _) => "string_agg",
    }
}

/// all non-NULL values belong to one ordered domain (numbers together) and none is NaN
pub fn mutually_comparable(vals: &[&RV]) -> bool {
    fn bucket(v: &RV) -> Option<String> { match v { RV::Null => None, RV::Int(_) => Some("num".into()), RV::Real(x) => if x.is_nan() { Some("nan".into()) } else { Some("num".into()) }, RV::Arr(t, xs) => if xs.iter().any(|x| matches!(x, RV::Real(y) if y.is_nan())) { Some("nan".into()) } else { Some(format!("arr:{}", t.tag())) }, other => other.ty().map(|t| t.tag()) } }
    let mut seen: Option<String> = None;
    for v in vals { if let Some(b) = bucket(v) { if b == "nan" { return false; } match &seen { None => seen = Some(b), Some(s) => if *s != b { return false; } } } }
    true
}

fn as_f64(v: &RV) -> f64 { match v { RV::Int(i) => *i as f64, RV::Real(x) => *x, RV::Iv(x) => *x as f64, _ => f64::NAN } }

/// accept set of one aggregate over the argument values of one group (in arrival order; `rows` = number of rows of the group)
pub fn aggregate_value(a: &Aggregate, args: &[RV], rows: usize) -> Expect {
    let non_null: Vec<&RV> = args.iter().filter(|v| !v.is_null()).collect();
    let n = non_null.len();
    let tol = |mut e: Expect| { e.tol = 1e-9; e };
    match a {
        Aggregate::GroupKey(_) => Expect::error(),
        Aggregate::Count(None, _) => Expect::val(RV::Int(rows as i64)),
        Aggregate::Count(Some(_), false) => Expect::val(RV::Int(n as i64)),
        Aggregate::Count(Some(_), true) => {
            let mut uniq: Vec<&RV> = Vec::new();
            for v in &non_null { if !uniq.iter().any(|u| eq_ref(u, v) == Some(true)) { uniq.push(v); } }
            Expect::val(RV::Int(uniq.len() as i64))
        }
        Aggregate::Sum(_) => {
            if n == 0 { return Expect::val(RV::Null); }
            match non_null[0] {
                RV::Int(_) => { let mut acc: i64 = 0; for v in &non_null { match v { RV::Int(i) => match acc.checked_add(*i) { Some(s) => acc = s, None => return Expect::error() }, _ => return Expect::error().or(RV::Null) } } Expect::val(RV::Int(acc)) }
                RV::Real(_) => { let s: f64 = non_null.iter().map(|v| as_f64(v)).sum(); tol(Expect::val(RV::Real(s))) }
                RV::Iv(_) => { let mut acc: i64 = 0; for v in &non_null { if let RV::Iv(i) = v { match acc.checked_add(*i) { Some(s) => acc = s, None => return Expect::error() } } } Expect::val(RV::Iv(acc)) }
                _ => Expect::error().or(RV::Null),
            }
        }
        Aggregate::Min(_) | Aggregate::Max(_) => {
            if n == 0 { return Expect::val(RV::Null); }
            let is_max = matches!(a, Aggregate::Max(_));
            let mut best = non_null[0];
            for v in &non_null[1..] {
                match cmp_ref(v, best) { Some(Ordering::Greater) if is_max => best = v, Some(Ordering::Less) if !is_max => best = v, None => return Expect { anything: true, ..Default::default() }, _ => {} }
            }
            Expect::val(best.clone())
        }
        Aggregate::Average(_) => {
            if n == 0 { return Expect::val(RV::Null); }
            match non_null[0] {
                RV::Int(_) => { let s: i128 = non_null.iter().map(|v| if let RV::Int(i) = v { *i as i128 } else { 0 }).sum(); let mean = s as f64 / n as f64; let mut e = Expect::val(RV::Real(mean)); e.vals.push(RV::Int((s / n as i128) as i64)); tol(e) }
                RV::Real(_) => { let s: f64 = non_null.iter().map(|v| as_f64(v)).sum(); tol(Expect::val(RV::Real(s / n as f64))) }
                RV::Iv(_) => { let s: i128 = non_null.iter().map(|v| if let RV::Iv(i) = v { *i as i128 } else { 0 }).sum(); let mut e = Expect::val(RV::Iv((s / n as i128) as i64)); e.vals.push(RV::Iv(((s / 1000) / n as i128 * 1000) as i64)); e.anything = true; e }
                _ => Expect::error().or(RV::Null),
            }
        }
        Aggregate::StandardDeviation(_, is_variance) => {
            if n == 0 { return Expect::val(RV::Null); }
            if !matches!(non_null[0], RV::Int(_) | RV::Real(_)) { return Expect { anything: true, ..Default::default() }; }
            let xs: Vec<f64> = non_null.iter().map(|v| as_f64(v)).collect();
            let mean = xs.iter().sum::<f64>() / n as f64;
            let ss: f64 = xs.iter().map(|x| (x - mean) * (x - mean)).sum();
            let f = |v: f64| if *is_variance { v } else { v.sqrt() };
            let mut e = Expect::val(RV::Real(f(ss / n as f64)));
            if n > 1 { e.vals.push(RV::Real(f(ss / (n - 1) as f64))); } else { e.vals.push(RV::Null); e.vals.push(RV::Real(0.0)); e.err = true; }
            e.tol = 1e-7;
            // E[x^2] - E[x]^2 cancels: the absolute error is about eps * n * max(x^2) for the variance, its root for the deviation
            let m = xs.iter().fold(1.0f64, |a, x| a.max(x.abs()));
            let var_err = 1e-14 * (n as f64) * m * m;
            e.abs_tol = if *is_variance { var_err } else { var_err.sqrt() };
            e
        }
        Aggregate::Percentile(_, p) => {
            if n == 0 { return Expect::val(RV::Null); }
            let mut sorted: Vec<&RV> = non_null.clone();
            if !mutually_comparable(&sorted) { return Expect { anything: true, ..Default::default() }; }
            sorted.sort_by(|a, b| cmp_ref(a, b).unwrap_or(Ordering::Equal));
            let pn = p.0 * n as f64;
            let lo = ((pn.ceil() as i64) - 1).clamp(0, n as i64 - 1) as usize;
            let hi = (pn.floor() as i64).clamp(0, n as i64 - 1) as usize;
            let (lo, hi) = (lo.min(hi), lo.max(hi));
            Expect::vals(sorted[lo..=hi].iter().map(|v| (*v).clone()).collect())
        }
        Aggregate::BoolAnd(_) | Aggregate::BoolOr(_) => {
            if n == 0 { return Expect::val(RV::Null); }
            let mut acc = matches!(a, Aggregate::BoolAnd(_));
            for v in &non_null { match v { RV::Bool(b) => { if matches!(a, Aggregate::BoolAnd(_)) { acc = acc && *b } else { acc = acc || *b } }, _ => return Expect::error() } }
            Expect::val(RV::Bool(acc))
        }
        Aggregate::CollectString(_, d) => {
            if n == 0 { return Expect::val(RV::Null); }
            let mut parts = Vec::new();
            for v in &non_null { match v { RV::Text(s) => parts.push(s.clone()), _ => return Expect::error() } }
            Expect::val(RV::Text(parts.join(d)))
        }
        Aggregate::CollectArray(_) => {
            match args.iter().find_map(|v| v.ty()) {
                Some(t) => Expect::val(RV::Arr(t, args.to_vec())),
                // element type unknown: an error, NULL, or nothing but NULLs
                None => { let mut e = Expect::error().or(RV::Null); for t in [Ty::Int, Ty::Real, Ty::Text, Ty::Bool, Ty::Ts, Ty::Iv] { e.vals.push(RV::Arr(t, args.to_vec())); } e }
            }
        }
    }
}

/// `agg op const` wrappers: the select-list transform applied to the aggregate's value
pub fn apply_transform(t: &ExpressionTree, v: &RV) -> Option<Expect> {
    fn eval(t: &ExpressionTree, v: &RV) -> Option<Outcome> {
        match t {
            ExpressionTree::ScopedColumnAccess(_, _) => Some(Outcome::Val(v.clone())),
            ExpressionTree::Value(x) => Some(Outcome::Val(RV::from_engine(x))),
            ExpressionTree::Arithmetic { left, right, .. } | ExpressionTree::Compare { left, right, .. } => {
                let kids = vec![eval(left, v)?, eval(right, v)?];
                let e = sem::node(t, &kids, &|_| None);
                if e.err && e.vals.is_empty() { return Some(Outcome::Err("transform".into())); }
                if e.vals.len() == 1 && !e.err { Some(Outcome::Val(e.vals[0].clone())) } else { None }
            }
            ExpressionTree::UnaryArithmetic { operand, .. } => {
                let kids = vec![eval(operand, v)?];
                let e = sem::node(t, &kids, &|_| None);
                if e.vals.len() == 1 && !e.err { Some(Outcome::Val(e.vals[0].clone())) } else if e.err && e.vals.is_empty() { Some(Outcome::Err("transform".into())) } else { None }
            }
            _ => None,
        }
    }
    match eval(t, v)? { Outcome::Val(x) => Some(Expect::val(x)), Outcome::Err(_) => Some(Expect::error()) }
}

#[derive(Clone, Debug, PartialEq)]
pub enum Keep { Yes, No, Maybe }

pub struct ExpGroup { pub key: Vec<RV>, pub rows: usize, pub cells: Vec<Expect>, pub keep: Keep, pub situations: Vec<&'static str>,
    /// no aggregate of the statement (select list and HAVING) has a value for this group
    pub no_aggregate_has_a_value: bool }

/// aggregates that have no value at all for a group whose arguments are all NULL
fn valueless_over_nulls(a: &Aggregate) -> bool {
    matches!(a, Aggregate::Count(Some(_), _) | Aggregate::BoolAnd(_) | Aggregate::BoolOr(_) | Aggregate::Percentile(..) | Aggregate::CollectString(..) | Aggregate::CollectArray(_))
}

pub struct RowFacts { pub key: Vec<RV>, pub args: Vec<Option<RV>> }

/// select-list aggregates followed by the hidden aggregates of HAVING, in the order `ExpressionTree::visit` reports them
pub fn all_aggregates(stmt: &AggregateStatement) -> Vec<Aggregate> {
    let mut out: Vec<Aggregate> = stmt.aggregates.iter().map(|a| a.aggregate.clone()).collect();
    if let Some(h) = &stmt.having {
        let _ = h.visit::<(), _>(&mut |t| { if let ExpressionTree::Aggregate(_, a) = t { if !matches!(a.as_ref(), Aggregate::GroupKey(_)) { out.push((**a).clone()); } } Ok(()) });
    }
    out
}

fn having_value(t: &ExpressionTree, stmt: &AggregateStatement, g: &GroupData, hidden: &mut usize, aggs: &[Aggregate]) -> Option<Outcome> {
    match t {
        ExpressionTree::Aggregate(_, a) => match a.as_ref() {
            Aggregate::GroupKey(expr) => {
                let gb = stmt.group_by.as_ref()?;
                let idx = gb.iter().position(|p| p == expr)?;
                Some(Outcome::Val(g.key[idx].clone()))
            }
            _ => {
                let idx = stmt.aggregates.len() + *hidden;
                *hidden += 1;
                let e = aggregate_value(&aggs[idx], &g.args[idx], g.rows);
                if e.anything { return None; }
                if e.vals.len() == 1 && !e.err { Some(Outcome::Val(e.vals[0].clone())) } else if e.err && e.vals.is_empty() { Some(Outcome::Err("aggregate".into())) } else { None }
            }
        },
        ExpressionTree::Value(v) => Some(Outcome::Val(RV::from_engine(v))),
        _ => {
            // children first, left to right (the same order in which hidden aggregates are numbered)
            let kids: Vec<Outcome> = sem::children(t).into_iter().map(|k| having_value(k, stmt, g, hidden, aggs)).collect::<Option<Vec<_>>>()?;
            let e = sem::node(t, &kids, &|_| None);
            if e.anything { return None; }
            if e.vals.len() == 1 && !e.err { Some(Outcome::Val(e.vals[0].clone())) } else if e.err && e.vals.is_empty() { Some(Outcome::Err("having".into())) } else { None }
        }
    }
}

pub struct GroupData { pub key: Vec<RV>, pub rows: usize, pub args: Vec<Vec<RV>> }

pub enum FoldError { StatementMustFail(String), Undecidable(String) }

/// groups the rows and computes the expected result table (ascending key order, NULL first)
pub fn expected_table(stmt: &AggregateStatement, rows: &[RowFacts]) -> Result<Vec<ExpGroup>, FoldError> {
    let aggs = all_aggregates(stmt);
    let mut groups: Vec<GroupData> = Vec::new();
    for r in rows {
        let pos = groups.iter().position(|g| tuple_eq(&g.key, &r.key));
        let g = match pos { Some(p) => &mut groups[p], None => { groups.push(GroupData { key: r.key.clone(), rows: 0, args: vec![Vec::new(); aggs.len()] }); groups.last_mut().unwrap() } };
        g.rows += 1;
        for (i, a) in r.args.iter().enumerate() { if let Some(v) = a { g.args[i].push(v.clone()); } }
    }
    for g in &groups { if g.key.iter().any(|k| matches!(k, RV::Real(x) if x.is_nan())) { return Err(FoldError::Undecidable("nan-key".into())); } }
    let nk = groups.first().map(|g| g.key.len()).unwrap_or(0);
    for i in 0..nk { let col: Vec<&RV> = groups.iter().map(|g| &g.key[i]).collect(); if !mutually_comparable(&col) { return Err(FoldError::Undecidable("keys-of-mixed-types".into())); } }
    groups.sort_by(|a, b| tuple_cmp(&a.key, &b.key).unwrap_or(Ordering::Equal));
    let mut out = Vec::new();
    for g in &groups {
        let mut cells = Vec::new();
        let mut situations = Vec::new();
        for (i, item) in stmt.aggregates.iter().enumerate() {
            let cell = match &item.aggregate {
                Aggregate::GroupKey(expr) => {
                    let gb = stmt.group_by.as_ref().ok_or_else(|| FoldError::StatementMustFail("key without GROUP BY".into()))?;
                    match gb.iter().position(|p| p == expr) { Some(idx) => Expect::val(g.key[idx].clone()), None => return Err(FoldError::StatementMustFail("projection is not a group key".into())) }
                }
                a => {
                    let base = aggregate_value(a, &g.args[i], g.rows);
                    match &item.transform {
                        None => base,
                        Some(t) => {
                            if base.anything { base } else {
                                let mut e = Expect::default();
                                e.err = base.err; e.tol = base.tol;
                                for v in &base.vals { match apply_transform(t, v) { Some(x) => { e = e.union(x); } None => return Err(FoldError::Undecidable("transform".into())) } }
                                e
                            }
                        }
                    }
                }
            };
            let nn = g.args[i].iter().filter(|v| !v.is_null()).count();
            situations.push(if matches!(item.aggregate, Aggregate::GroupKey(_)) { "key" } else if g.rows == 1 { "single-row" } else if nn == 0 && !matches!(item.aggregate, Aggregate::Count(None, _)) { "all-null" } else { "normal" });
            cells.push(cell);
        }
        let keep = match &stmt.having {
            None => Keep::Yes,
            Some(h) => { let mut hidden = 0; match having_value(h, stmt, g, &mut hidden, &aggs) { Some(Outcome::Val(RV::Bool(true))) => Keep::Yes, Some(Outcome::Val(RV::Bool(false))) | Some(Outcome::Val(RV::Null)) => Keep::No, Some(Outcome::Err(_)) => return Err(FoldError::StatementMustFail("having".into())), _ => Keep::Maybe } }
        };
        // a cell that can only be an error makes the whole statement fail
        // (STDDEV / VARIANCE over INTERVAL never have a value either - the other open finding of C04 - whatever their arguments)
        let no_value = aggs.iter().enumerate().all(|(i, a)| matches!(a, Aggregate::GroupKey(_)) || (valueless_over_nulls(a) && g.args[i].iter().all(|v| v.is_null()))
            || (matches!(a, Aggregate::StandardDeviation(..)) && g.args[i].iter().all(|v| v.is_null() || matches!(v, RV::Iv(_)))));
        if cells.iter().any(|c| c.err && c.vals.is_empty() && !c.anything && !c.any_ts && !c.any_text) {
            // ... unless the group is one the engine does not list at all (open finding: no aggregate has a value for it): then the
            // wrapper `1000 / COUNT(c)` of that group is never evaluated, and whether the statement fails is not decidable
            if no_value { return Err(FoldError::Undecidable("error-only cell in a group without values".into())); }
            return Err(FoldError::StatementMustFail("aggregate has no value".into()));
        }
        out.push(ExpGroup { key: g.key.clone(), rows: g.rows, cells, keep, situations, no_aggregate_has_a_value: no_value });
    }
    Ok(out)
}

#[allow(dead_code)]
fn _unused(_: ArithmeticOperator, _: CompareOperator, _: BooleanOperator) {}
