//! Shard runner: case loop, panic capture, write-ahead witness, verdict bookkeeping.

use std::cell::RefCell;
use std::collections::{BTreeMap, HashMap, HashSet};
use std::io::Write;
use std::panic::{catch_unwind, AssertUnwindSafe};
use std::path::{Path, PathBuf};
use std::time::{Duration, Instant};

use serde_json::{json, Value as J};

use crate::rng::{fnv1a, mix, Rng};

#[derive(Clone, Copy, PartialEq, Eq, Debug)]
pub enum Tier { Quick, Thorough }

impl Tier {
    pub fn name(&self) -> &'static str { match self { Tier::Quick => "quick", Tier::Thorough => "thorough" } }
}

#[derive(Clone, Debug)]
pub struct Violation { pub sig: String, pub detail: String }

impl Violation {
    pub fn new(sig: impl Into<String>, detail: impl Into<String>) -> Violation { Violation { sig: sig.into(), detail: detail.into() } }
}

pub enum Verdict {
    Held,
    Violated(Vec<Violation>),
    Inconclusive(String),
}

/// What a monitor observed while judging one case.
#[derive(Default)]
pub struct Obs {
    pub features: BTreeMap<String, u64>,
    pub nontrivial: bool,
    /// sub-evaluations performed inside the case (e.g. node checks, interrupt points)
    pub evals: u64,
    /// distinct non-trivial sub-case hashes (when a case bundles many sub-cases)
    pub sub_hashes: Vec<u64>,
}

impl Obs {
    pub fn hit(&mut self, feature: &str) { *self.features.entry(feature.to_owned()).or_insert(0) += 1; }
    pub fn hit_n(&mut self, feature: &str, n: u64) { *self.features.entry(feature.to_owned()).or_insert(0) += n; }
    pub fn nontrivial(&mut self) { self.nontrivial = true; }
    pub fn sub(&mut self, hash: u64) { self.sub_hashes.push(hash); }
}

pub struct Sizes {
    /// random cases in total over all shards
    pub cases: u64,
    /// floor on distinct non-trivial observations below which the run is INCONCLUSIVE
    pub min_nontrivial: u64,
}

pub trait Monitor {
    fn id(&self) -> &'static str;
    fn rule(&self) -> &'static str;
    fn assumptions(&self) -> Vec<String> { Vec::new() }
    fn sizes(&self, tier: Tier) -> Sizes;
    /// enumerated (exhaustive) sub-space; the callback is given every case; the runner keeps index % nshards == shard
    fn enumerate(&self, _tier: Tier, _emit: &mut dyn FnMut(J)) {}
    fn exhaustive_note(&self) -> Option<String> { None }
    fn generate(&self, rng: &mut Rng, tier: Tier) -> J;
    fn check(&self, case: &J, obs: &mut Obs) -> Verdict;
    /// extra, monitor specific evidence (e.g. distinct interleavings)
    fn extra_evidence(&self) -> J { J::Null }
}

// ---------------------------------------------------------------------------------------------
// panic capture

#[derive(Clone, Debug)]
pub struct PanicRec { pub msg: String, pub file: String, pub line: u32, pub func: String }

impl PanicRec {
    pub fn class(&self) -> String { classify_panic(&self.msg) }
    pub fn sig(&self) -> String { format!("panic|{}|{}|{}", self.file, self.func, self.class()) }
    pub fn describe(&self) -> String { format!("panic at {}:{} in {}: {}", self.file, self.line, self.func, self.msg) }
}

thread_local! {
    static LAST_PANIC: RefCell<Option<PanicRec>> = RefCell::new(None);
    static FUNC_CACHE: RefCell<HashMap<(String, u32), String>> = RefCell::new(HashMap::new());
}

pub fn repo_root() -> String { std::env::var("VERIF_REPO").unwrap_or_else(|_| "/repo".to_owned()) }

pub fn classify_panic(msg: &str) -> String {
    let m = msg;
    let table: &[(&str, &str)] = &[
        ("attempt to add with overflow", "add-overflow"),
        ("attempt to subtract with overflow", "sub-overflow"),
        ("attempt to multiply with overflow", "mul-overflow"),
        ("attempt to negate with overflow", "neg-overflow"),
        ("attempt to divide by zero", "div-zero"),
        ("attempt to divide with overflow", "div-overflow"),
        ("attempt to calculate the remainder", "rem-zero"),
        ("attempt to shift", "shift-overflow"),
        ("index out of bounds", "index-oob"),
        ("out of range for slice", "slice-oob"),
        ("slice index starts at", "slice-oob"),
        ("is not a char boundary", "char-boundary"),
        ("called `Option::unwrap()` on a `None` value", "unwrap-none"),
        ("called `Result::unwrap()` on an `Err` value", "unwrap-err"),
        ("No such local time", "no-local-time"),
        ("not implemented", "unimplemented"),
        ("not yet implemented", "todo"),
        ("internal error: entered unreachable code", "unreachable"),
        ("assertion", "assertion"),
        ("already borrowed", "borrow"),
        ("already mutably borrowed", "borrow"),
        ("capacity overflow", "capacity-overflow"),
        ("out of bounds", "out-of-bounds"),
        ("overflow", "overflow-other"),
    ];
    for (needle, class) in table {
        if m.contains(needle) { return (*class).to_owned(); }
    }
    let short: String = m.chars().filter(|c| !c.is_ascii_digit()).take(40).collect();
    format!("explicit:{}", short)
}

fn enclosing_fn(file: &str, line: u32) -> Option<String> {
    let text = std::fs::read_to_string(file).ok()?;
    let lines: Vec<&str> = text.lines().collect();
    let mut idx = (line as usize).min(lines.len());
    let re = regex::Regex::new(r"^\s*(?:pub(?:\([a-z]+\))?\s+)?(?:const\s+)?(?:unsafe\s+)?fn\s+([A-Za-z0-9_]+)").unwrap();
    // indentation of the panic line bounds the search to enclosing (less indented) fns
    let indent = |s: &str| s.len() - s.trim_start().len();
    let mut limit = if idx >= 1 { indent(lines[idx - 1]) } else { usize::MAX };
    while idx >= 1 {
        let l = lines[idx - 1];
        if let Some(c) = re.captures(l) {
            if indent(l) < limit || idx as u32 == line { return Some(c[1].to_owned()); }
        }
        if !l.trim().is_empty() { limit = limit.min(indent(l).max(1)); }
        idx -= 1;
    }
    None
}

fn func_from_backtrace() -> String {
    let bt = std::backtrace::Backtrace::force_capture().to_string();
    for l in bt.lines() {
        let l = l.trim();
        if let Some(pos) = l.find("sqlgrep::") {
            let mut name = l[pos + "sqlgrep::".len()..].to_owned();
            if let Some(h) = name.rfind("::h") { if name[h + 3..].chars().all(|c| c.is_ascii_hexdigit()) { name.truncate(h); } }
            let name = name.replace("::{{closure}}", "");
            // strip generic parameters
            let mut out = String::new();
            let mut depth = 0;
            for c in name.chars() {
                match c { '<' => depth += 1, '>' => depth -= 1, _ => if depth == 0 { out.push(c) } }
            }
            let last = out.rsplit("::").next().unwrap_or("").to_owned();
            if !last.is_empty() { return last; }
        }
    }
    "?".to_owned()
}

pub fn install_panic_hook() {
    std::panic::set_hook(Box::new(|info| {
        let msg = if let Some(s) = info.payload().downcast_ref::<&str>() { (*s).to_owned() }
                  else if let Some(s) = info.payload().downcast_ref::<String>() { s.clone() }
                  else { "<non-string panic>".to_owned() };
        let (file, line) = info.location().map(|l| (l.file().to_owned(), l.line())).unwrap_or(("?".to_owned(), 0));
        let root = repo_root();
        let in_repo = file.starts_with(&root) || (!file.starts_with('/') && file.starts_with("src/"));
        let key = (file.clone(), line);
        let cached = FUNC_CACHE.with(|c| c.borrow().get(&key).cloned());
        let func = match cached {
            Some(f) => f,
            None => {
                let f = if in_repo {
                    let abs = if file.starts_with('/') { file.clone() } else { format!("{}/{}", root, file) };
                    enclosing_fn(&abs, line).unwrap_or_else(func_from_backtrace)
                } else { func_from_backtrace() };
                FUNC_CACHE.with(|c| c.borrow_mut().insert(key, f.clone()));
                f
            }
        };
        let rel = if in_repo {
            file.strip_prefix(&root).map(|s| s.trim_start_matches('/').to_owned()).unwrap_or(file.clone())
        } else {
            // dependency: keep "<crate dir>/src/..."
            match file.find("/src/") {
                Some(p) => { let head = &file[..p]; let krate = head.rsplit('/').next().unwrap_or(""); format!("{}{}", krate, &file[p..]) }
                None => file.clone()
            }
        };
        LAST_PANIC.with(|p| *p.borrow_mut() = Some(PanicRec { msg, file: rel, line, func }));
    }));
}

/// Runs `f`, turning a panic inside it into a value.
pub fn guard<T>(f: impl FnOnce() -> T) -> Result<T, PanicRec> {
    LAST_PANIC.with(|p| *p.borrow_mut() = None);
    match catch_unwind(AssertUnwindSafe(f)) {
        Ok(v) => Ok(v),
        Err(_) => Err(LAST_PANIC.with(|p| p.borrow_mut().take()).unwrap_or(PanicRec { msg: "<unknown>".into(), file: "?".into(), line: 0, func: "?".into() })),
    }
}

// ---------------------------------------------------------------------------------------------
// shard loop

pub struct ShardArgs {
    pub seed: u64,
    pub shard: usize,
    pub nshards: usize,
    pub tier: Tier,
    pub out_dir: PathBuf,
    pub time_s: f64,
    pub budget: f64,
    pub findings_dir: PathBuf,
}

struct SigAgg { count: u64, first_case: J, first_detail: String, first_size: u64 }

pub fn case_hash(case: &J) -> u64 { fnv1a(serde_json::to_string(case).unwrap_or_default().as_bytes()) }

fn prop_num(id: &str) -> u64 { id.trim_start_matches(|c: char| !c.is_ascii_digit()).parse().unwrap_or(0) }

pub fn write_file(path: &Path, bytes: &[u8]) {
    if let Ok(mut f) = std::fs::File::create(path) { let _ = f.write_all(bytes); }
}

#[derive(Default)]
struct Acc {
    evaluations: u64,
    sub_evals: u64,
    held: u64,
    violated_cases: u64,
    inconclusive: BTreeMap<String, u64>,
    features: BTreeMap<String, u64>,
    hashes: HashSet<u64>,
    sigs: BTreeMap<String, SigAgg>,
    samples: Vec<J>,
    fallback_sample: Option<J>,
}

impl Acc {
    fn run_one(&mut self, mon: &dyn Monitor, wal: &Path, case: &J, origin: &str) -> Vec<String> {
        let text = serde_json::to_string(case).unwrap_or_default();
        write_file(wal, text.as_bytes());
        let h = fnv1a(text.as_bytes());
        let mut obs = Obs::default();
        let verdict = match guard(|| mon.check(case, &mut obs)) {
            Ok(v) => v,
            Err(p) => Verdict::Violated(vec![Violation::new(p.sig(), format!("uncaught {}", p.describe()))]),
        };
        // The statements and table definitions of the cases are generator-made and valid in the documented syntax; on the
        // tree the harness was developed against none is ever rejected. A monitor that could not run its case because the
        // engine REJECTED the statement or the definition has not "observed nothing": the query did not produce the
        // result the property speaks about. (Monitors with oracles of their own for rejection - C13, C14, C20 - never
        // return these reasons.)
        let verdict = match verdict {
            Verdict::Inconclusive(reason) if reason.starts_with("stmt") || reason.starts_with("table:") || reason.starts_with("j table:") => {
                let norm: String = { let mut q = false; reason.chars().filter(|c| { if *c == '\'' { q = !q; } !q || *c == '\'' }).filter(|c| !c.is_ascii_digit()).take(60).collect() };
                Verdict::Violated(vec![Violation::new(format!("generated-input-rejected|{}", norm), format!("the engine rejected a generator-made statement / definition: {}", reason))])
            }
            v => v,
        };
        self.evaluations += 1;
        self.sub_evals += obs.evals;
        for (k, v) in obs.features { *self.features.entry(k).or_insert(0) += v; }
        let mut found = Vec::new();
        match verdict {
            Verdict::Held => {
                self.held += 1;
                let sub_empty = obs.sub_hashes.is_empty();
                if obs.nontrivial { self.hashes.insert(h); }
                for s in obs.sub_hashes { self.hashes.insert(s); }
                let informative = obs.nontrivial || !sub_empty;
                if self.samples.len() < 3 && informative && origin != "pinned" && text.len() < 20_000 { self.samples.push(case.clone()); }
                if self.fallback_sample.is_none() && text.len() < 20_000 { self.fallback_sample = Some(case.clone()); }
            }
            Verdict::Inconclusive(reason) => { *self.inconclusive.entry(reason).or_insert(0) += 1; }
            Verdict::Violated(vs) => {
                self.violated_cases += 1;
                // a violated case still observed something (known findings must not zero the coverage)
                if obs.nontrivial { self.hashes.insert(h); }
                for s in obs.sub_hashes { self.hashes.insert(s); }
                let size = text.len() as u64;
                for v in vs {
                    found.push(v.sig.clone());
                    let e = self.sigs.entry(v.sig.clone()).or_insert(SigAgg { count: 0, first_case: case.clone(), first_detail: v.detail.clone(), first_size: size });
                    e.count += 1;
                    // keep the smallest witness
                    if size < e.first_size { e.first_size = size; e.first_case = case.clone(); e.first_detail = v.detail.clone(); }
                }
            }
        }
        found
    }
}

pub fn run_shard(mon: &dyn Monitor, args: &ShardArgs) -> J {
    let start = Instant::now();
    let deadline = start + Duration::from_secs_f64(args.time_s);
    let sizes = mon.sizes(args.tier);
    let id = mon.id();
    let wal = args.out_dir.join(format!("shard-{}.current.json", args.shard));
    let mut acc = Acc::default();
    let mut capped_by = "count";

    // 1. pinned reproducers of known findings (shard 0 only)
    let mut pinned: Vec<J> = Vec::new();
    if args.shard == 0 {
        if let Ok(rd) = std::fs::read_dir(&args.findings_dir) {
            let mut files: Vec<PathBuf> = rd.filter_map(|e| e.ok().map(|e| e.path())).filter(|p| p.extension().map(|e| e == "json").unwrap_or(false)).collect();
            files.sort();
            for f in files {
                let Ok(text) = std::fs::read_to_string(&f) else { continue };
                let Ok(doc) = serde_json::from_str::<J>(&text) else { continue };
                if doc.get("property").and_then(|p| p.as_str()) != Some(id) { continue; }
                let Some(case) = doc.get("case") else { continue };
                let mut pa = Acc::default();
                let found = pa.run_one(mon, &wal, case, "pinned");
                let details: Vec<J> = pa.sigs.iter().map(|(s, a)| json!({"sig": s, "detail": a.first_detail})).collect();
                pinned.push(json!({"file": f.file_name().unwrap().to_string_lossy(), "sigs": found, "details": details,
                                   "inconclusive": pa.inconclusive.keys().cloned().collect::<Vec<_>>()}));
            }
        }
    }

    // 2. enumerated sub-space
    let mut enum_total = 0u64;
    let mut enum_done = true;
    {
        let mut idx = 0u64;
        let hard_deadline = deadline + Duration::from_secs_f64(args.time_s);
        let mut emit = |case: J| {
            let mine = idx % args.nshards as u64 == args.shard as u64;
            idx += 1;
            if !mine { return; }
            if Instant::now() > hard_deadline { enum_done = false; return; }
            enum_total += 1;
            acc.run_one(mon, &wal, &case, "enum");
        };
        mon.enumerate(args.tier, &mut emit);
    }

    // 3. random cases
    let total = ((sizes.cases as f64 * args.budget) as u64).max(args.nshards as u64);
    let mine = total / args.nshards as u64 + if (args.shard as u64) < total % args.nshards as u64 { 1 } else { 0 };
    let mut random_done = 0u64;
    for j in 0..mine {
        if Instant::now() > deadline { capped_by = "time"; break; }
        let mut rng = Rng::new(mix(&[args.seed, prop_num(id), args.shard as u64, j, match args.tier { Tier::Quick => 0, Tier::Thorough => 1 }]));
        let case = match guard(|| mon.generate(&mut rng, args.tier)) {
            Ok(c) => c,
            Err(p) => { *acc.inconclusive.entry(format!("generator-panic: {}", p.describe())).or_insert(0) += 1; continue; }
        };
        acc.run_one(mon, &wal, &case, "random");
        random_done += 1;
    }
    let _ = std::fs::remove_file(&wal);

    // hashes to a side file (merged by the driver for the distinct count)
    let hpath = args.out_dir.join(format!("shard-{}.hashes", args.shard));
    let mut bytes = Vec::with_capacity(acc.hashes.len() * 8);
    for h in &acc.hashes { bytes.extend_from_slice(&h.to_le_bytes()); }
    write_file(&hpath, &bytes);

    if acc.samples.is_empty() { if let Some(f) = acc.fallback_sample.take() { acc.samples.push(f); } }
    let violations: Vec<J> = acc.sigs.iter().map(|(sig, a)| json!({
        "sig": sig, "count": a.count, "detail": a.first_detail, "case": a.first_case,
    })).collect();

    json!({
        "property": id, "shard": args.shard, "nshards": args.nshards, "seed": args.seed, "tier": args.tier.name(),
        "evaluations": acc.evaluations, "sub_evaluations": acc.sub_evals, "held": acc.held, "violated_cases": acc.violated_cases,
        "inconclusive": acc.inconclusive, "features": acc.features, "nontrivial_distinct": acc.hashes.len(),
        "violations": violations, "pinned": pinned, "samples": acc.samples,
        "enumerated": enum_total, "enumeration_complete": enum_done, "random_done": random_done, "random_planned": mine,
        "capped_by": capped_by, "wall_s": start.elapsed().as_secs_f64(),
        "rule": mon.rule(), "assumptions": mon.assumptions(), "min_nontrivial": sizes.min_nontrivial,
        "exhaustive_note": mon.exhaustive_note(), "extra": mon.extra_evidence(),
    })
}
