//! Reference semantics of one expression node given the (engine-evaluated) outcomes of its children
//! (DESIGN Appendix A.4). Set-valued: where the documentation is silent every reading is accepted.

use std::cmp::Ordering;

use sqlgrep::model::{ArithmeticOperator, BooleanOperator, CompareOperator, ExpressionTree, Function, NullableCompareOperator, UnaryArithmeticOperator, ValueType};

use crate::conv::function_name;
use crate::val::*;

#[derive(Clone, Debug)]
pub enum Outcome { Val(RV), Err(String) }

impl Outcome {
    pub fn show(&self) -> String { match self { Outcome::Val(v) => v.show(), Outcome::Err(e) => format!("Err({})", e) } }
    pub fn tag(&self) -> String { match self { Outcome::Val(v) => v.tag(), Outcome::Err(_) => "Err".into() } }
}

#[derive(Clone, Debug, Default)]
pub struct Expect { pub vals: Vec<RV>, pub err: bool, pub any_ts: bool, pub any_text: bool, pub tol: f64,
    /// the operands lie outside the harness' value domain (saturated intervals): nothing can be said about this node
    pub anything: bool,
    /// absolute tolerance for REAL results of numerically ill-conditioned formulas (variance by sums of squares)
    pub abs_tol: f64 }

impl Expect {
    pub fn val(v: RV) -> Expect { Expect { vals: vec![v], ..Default::default() } }
    pub fn vals(vs: Vec<RV>) -> Expect { Expect { vals: vs, ..Default::default() } }
    pub fn error() -> Expect { Expect { err: true, ..Default::default() } }
    pub fn or_err(mut self) -> Expect { self.err = true; self }
    pub fn or(mut self, v: RV) -> Expect { self.vals.push(v); self }
    pub fn both_bools() -> Expect { Expect::vals(vec![RV::Bool(true), RV::Bool(false)]) }
    pub fn boolean(b: bool) -> Expect { Expect::val(RV::Bool(b)) }
    pub fn union(mut self, other: Expect) -> Expect { self.vals.extend(other.vals); self.err |= other.err; self.any_ts |= other.any_ts; self.any_text |= other.any_text; self.tol = self.tol.max(other.tol); self.abs_tol = self.abs_tol.max(other.abs_tol); self.anything |= other.anything; self }
    pub fn admits(&self, o: &Outcome) -> bool {
        match o {
            _ if self.anything => true,
            Outcome::Err(_) => self.err,
            Outcome::Val(RV::Real(x)) if self.abs_tol > 0.0 && self.vals.iter().any(|a| matches!(a, RV::Real(y) if (x - y).abs() <= self.abs_tol)) => true,
            Outcome::Val(v) => (self.any_ts && matches!(v, RV::Ts(_))) || (self.any_text && matches!(v, RV::Text(_))) || self.vals.iter().any(|a| a.same(v, self.tol)),
        }
    }
    pub fn show(&self) -> String {
        let mut parts: Vec<String> = self.vals.iter().map(|v| v.show()).collect();
        if self.err { parts.push("Err".into()); }
        if self.any_ts { parts.push("<any timestamp>".into()); }
        if self.any_text { parts.push("<any text>".into()); }
        format!("{{{}}}", parts.join(" | "))
    }
    pub fn singleton_value(&self) -> bool { self.vals.len() == 1 && !self.err && !self.any_ts && !self.any_text }
}

pub fn is_numeric(v: &RV) -> bool { matches!(v, RV::Int(_) | RV::Real(_)) }
fn as_f64(v: &RV) -> f64 { match v { RV::Int(i) => *i as f64, RV::Real(x) => *x, _ => f64::NAN } }

fn apply_cmp(op: &CompareOperator, o: Ordering) -> bool {
    match op { CompareOperator::Equal => o == Ordering::Equal, CompareOperator::NotEqual => o != Ordering::Equal, CompareOperator::GreaterThan => o == Ordering::Greater, CompareOperator::GreaterThanOrEqual => o != Ordering::Less, CompareOperator::LessThan => o == Ordering::Less, CompareOperator::LessThanOrEqual => o != Ordering::Greater }
}

fn has_nan(v: &RV) -> bool { match v { RV::Real(x) => x.is_nan(), RV::Arr(_, xs) => xs.iter().any(has_nan), _ => false } }

/// comparison of two non-error operands (rows of A.4 for = != < <= > >=)
pub fn compare(op: &CompareOperator, l: &RV, r: &RV) -> Expect {
    if l.is_null() || r.is_null() { return Expect::boolean(false); }
    // timestamp against text: the text is read as a timestamp literal
    let ts_text = |ts: &RV, t: &str, flipped: bool| -> Expect {
        let with = |v: i64| { let tv = RV::Ts(v); let o = if flipped { cmp_ref(&tv, ts) } else { cmp_ref(ts, &tv) }; Expect::boolean(apply_cmp(op, o.unwrap_or(Ordering::Equal))) };
        match parse_ts_lit(t) { TsLit::Exact(v) => with(v).or_err(), TsLit::No => Expect::error(), TsLit::Maybe(Some(v)) => with(v).or_err(), TsLit::Maybe(None) => Expect::error() }
    };
    match (l, r) {
        (RV::Ts(_), RV::Text(t)) => return ts_text(l, t, false),
        (RV::Text(t), RV::Ts(_)) => return ts_text(r, t, true),
        _ => {}
    }
    let comparable = (is_numeric(l) && is_numeric(r)) || (l.ty() == r.ty());
    if !comparable {
        // arrays of different element types are "same-typed arrays" only loosely: error or element-wise verdict
        // arrays of different element types: a type mismatch (error) - unless an array has no non-NULL element, in which
        // case its element type is not determined by its contents and an implementation may type it either way
        if let (RV::Arr(_, a), RV::Arr(_, b)) = (l, r) { if a.iter().all(|x| x.is_null()) || b.iter().all(|x| x.is_null()) { return Expect::both_bools().or_err(); } }
        return Expect::error();
    }
    if has_nan(l) || has_nan(r) { return Expect::both_bools(); }
    let mut e = match cmp_ref(l, r) { Some(o) => Expect::boolean(apply_cmp(op, o)), None => Expect::both_bools().or_err() };
    // INT against REAL: exact comparison, or comparison after converting the INT to REAL (as PostgreSQL does)
    if let (RV::Int(_), RV::Real(_)) | (RV::Real(_), RV::Int(_)) = (l, r) { if let Some(o) = as_f64(l).partial_cmp(&as_f64(r)) { e.vals.push(RV::Bool(apply_cmp(op, o))); } }
    e
}

const I64_LIMIT: f64 = 9.2e18;

fn int_arith(op: &ArithmeticOperator, x: i64, y: i64) -> Expect {
    let r = match op { ArithmeticOperator::Add => x.checked_add(y), ArithmeticOperator::Subtract => x.checked_sub(y), ArithmeticOperator::Multiply => x.checked_mul(y), ArithmeticOperator::Divide => x.checked_div(y) };
    match r { Some(v) => Expect::val(RV::Int(v)), None => Expect::error() }
}

fn real_arith(op: &ArithmeticOperator, x: f64, y: f64) -> f64 {
    match op { ArithmeticOperator::Add => x + y, ArithmeticOperator::Subtract => x - y, ArithmeticOperator::Multiply => x * y, ArithmeticOperator::Divide => x / y }
}

/// chrono's timestamp range is about +-262000 years; the harness keeps well inside
fn ts_ok(v: i128) -> bool { v.abs() < 8_000_000_000_000_000_000i128 / 1 && v.abs() < 8_200_000_000_000_000_000i128 && (v / 1_000_000).abs() < 8_000_000_000_000i128 }
fn iv_ok(v: i128) -> bool { v.abs() <= (i64::MAX / 1000 * 1000) as i128 }

pub fn arithmetic(op: &ArithmeticOperator, l: &RV, r: &RV) -> Expect {
    use ArithmeticOperator::*;
    let ranged_ts = |v: i128| if ts_ok(v) { Expect::val(RV::Ts(v as i64)) } else { Expect::error().or(RV::Ts(v.clamp(i64::MIN as i128, i64::MAX as i128) as i64)) };
    let ranged_iv = |v: i128| if iv_ok(v) { Expect::val(RV::Iv(v as i64)) } else { Expect::error() };
    match (l, r) {
        (RV::Ts(a), RV::Iv(b)) => return match op { Add => ranged_ts(*a as i128 + *b as i128), Subtract => ranged_ts(*a as i128 - *b as i128), _ => Expect::error() },
        (RV::Iv(a), RV::Ts(b)) => return match op { Add => ranged_ts(*a as i128 + *b as i128), _ => Expect::error() },
        (RV::Ts(a), RV::Ts(b)) => return match op { Subtract => ranged_iv(*a as i128 - *b as i128), _ => Expect::error() },
        (RV::Iv(a), RV::Iv(b)) => return match op { Add => ranged_iv(*a as i128 + *b as i128), Subtract => ranged_iv(*a as i128 - *b as i128), _ => Expect::error() },
        _ => {}
    }
    if l.is_null() || r.is_null() {
        let other = if l.is_null() { r } else { l };
        return if other.is_null() || is_numeric(other) { Expect::val(RV::Null) } else { Expect::val(RV::Null).or_err() };
    }
    match (l, r) {
        (RV::Int(x), RV::Int(y)) => int_arith(op, *x, *y),
        (RV::Real(x), RV::Real(y)) => { let v = real_arith(op, *x, *y); if v.is_finite() { Expect::val(RV::Real(v)) } else { Expect::val(RV::Real(v)).or_err() } }
        (RV::Int(_), RV::Real(_)) | (RV::Real(_), RV::Int(_)) => { let v = real_arith(op, as_f64(l), as_f64(r)); let mut e = Expect::val(RV::Real(v)).or_err(); e.tol = 1e-12; e }
        _ => Expect::error(),
    }
}

/// two-valued reading of an operand of AND / OR / WHERE / CASE: Some(b) for BOOL / NULL, None for other types
pub fn truth(v: &RV) -> Option<bool> { match v { RV::Bool(b) => Some(*b), RV::Null => Some(false), _ => None } }

fn text_denotes(v: &RV) -> Expect {
    match v {
        RV::Int(i) => Expect::val(RV::Text(i.to_string())),
        RV::Bool(b) => Expect::val(RV::Text(b.to_string())),
        RV::Real(_) | RV::Arr(..) | RV::Ts(_) | RV::Iv(_) => Expect { any_text: true, ..Default::default() },
        RV::Text(s) => Expect::val(RV::Text(s.clone())),
        RV::Null => Expect::vals(vec![RV::Null, RV::Text("NULL".into())]),
    }.or_err()
}

pub fn cast(v: &RV, to: &Ty) -> Expect {
    if v.is_null() { return Expect::vals(vec![RV::Null, RV::Text("NULL".into())]).or_err(); }
    if let RV::Text(s) = v {
        if *to == Ty::Text { return Expect::val(v.clone()); }
        let a = crate::refx::literal_accept(to, s);
        return match a.situation {
            "literal" => { if a.vals.iter().all(|x| x.is_null()) { Expect::error() } else { Expect::vals(a.vals) } }
            "lenient-literal" => Expect::vals(a.vals.into_iter().filter(|x| !x.is_null()).collect()).or_err(),
            "beyond-harness-domain" => Expect::vals(a.vals.into_iter().filter(|x| !x.is_null()).collect()).or_err(),
            _ => Expect::error(),
        };
    }
    if v.ty().as_ref() == Some(to) { return Expect::val(v.clone()); }
    match (v, to) {
        (RV::Iv(us), Ty::Int) => Expect::val(RV::Int(us / 1_000_000)),
        (RV::Iv(us), Ty::Real) => { let mut e = Expect::val(RV::Real(*us as f64 / 1e6)); e.tol = 1e-9; e }
        (_, Ty::Text) => text_denotes(v),
        (RV::Int(i), Ty::Real) => Expect::val(RV::Real(*i as f64)).or_err(),
        (RV::Real(x), Ty::Int) => { let mut e = Expect::error(); if x.is_finite() && x.abs() < I64_LIMIT { e.vals.push(RV::Int(x.trunc() as i64)); e.vals.push(RV::Int(x.round() as i64)); } e }
        _ => Expect::error(),
    }
}

fn min_max(is_max: bool, a: &RV, b: &RV) -> Expect {
    if a.is_null() || b.is_null() {
        let other = if a.is_null() { b } else { a };
        if !(other.is_null() || is_numeric(other) || matches!(other, RV::Iv(_) | RV::Ts(_))) { return Expect::error().or(RV::Null); }
        return Expect::vals(vec![RV::Null, other.clone()]);
    }
    let pick = |o: Option<Ordering>| -> Expect {
        match o { None => Expect::vals(vec![a.clone(), b.clone()]), Some(o) => { let first = if is_max { o != Ordering::Less } else { o != Ordering::Greater }; let mut e = Expect::val(if first { a.clone() } else { b.clone() }); if o == Ordering::Equal { e.vals.push(b.clone()); } e } }
    };
    match (a, b) {
        (RV::Int(_), RV::Int(_)) | (RV::Real(_), RV::Real(_)) | (RV::Iv(_), RV::Iv(_)) => pick(cmp_ref(a, b)),
        (RV::Ts(_), RV::Ts(_)) => pick(cmp_ref(a, b)).or_err(),
        (RV::Int(_), RV::Real(_)) | (RV::Real(_), RV::Int(_)) => { let mut e = pick(cmp_ref(a, b)).or_err(); let extra: Vec<RV> = e.vals.iter().map(|v| RV::Real(as_f64(v))).collect(); e.vals.extend(extra); e }
        _ => Expect::error(),
    }
}

fn null_arg(args: &[RV]) -> bool { args.iter().any(|a| a.is_null()) }

pub fn function(f: &Function, args: &[RV]) -> Expect {
    let name = function_name(f);
    let null_or_err = || Expect::val(RV::Null).or_err();
    match (name, args.len()) {
        ("greatest", 2) => min_max(true, &args[0], &args[1]),
        ("least", 2) => min_max(false, &args[0], &args[1]),
        ("abs", 1) => match &args[0] { RV::Int(i) => i.checked_abs().map(|v| Expect::val(RV::Int(v))).unwrap_or_else(Expect::error), RV::Real(x) => Expect::val(RV::Real(x.abs())), RV::Iv(x) => x.checked_abs().map(|v| Expect::val(RV::Iv(v))).unwrap_or_else(Expect::error), RV::Null => null_or_err(), _ => Expect::error() },
        ("sqrt", 1) => match &args[0] { RV::Real(x) => if *x < 0.0 { Expect::val(RV::Real(f64::NAN)).or_err() } else { Expect::val(RV::Real(x.sqrt())) }, RV::Int(i) => Expect::val(RV::Real((*i as f64).sqrt())).or_err(), RV::Null => null_or_err(), _ => Expect::error() },
        ("pow", 2) => match (&args[0], &args[1]) {
            (RV::Real(x), RV::Real(y)) => { let v = x.powf(*y); let mut e = Expect::val(RV::Real(v)); e.tol = 1e-12; if !v.is_finite() { e.err = true; } e }
            (RV::Int(x), RV::Int(y)) => {
                let mut e = Expect::error();
                if *y >= 0 { if let Ok(p) = u32::try_from(*y) { if let Some(v) = x.checked_pow(p) { e.vals.push(RV::Int(v)); e.vals.push(RV::Real(v as f64)); } } }
                else { e.vals.push(RV::Real((*x as f64).powf(*y as f64))); e.tol = 1e-12; }
                e
            }
            (a, b) if a.is_null() || b.is_null() => if (a.is_null() || is_numeric(a)) && (b.is_null() || is_numeric(b)) { null_or_err() } else { Expect::error().or(RV::Null) },
            (a, b) if is_numeric(a) && is_numeric(b) => { let mut e = Expect::val(RV::Real(as_f64(a).powf(as_f64(b)))).or_err(); e.tol = 1e-12; e }
            _ => Expect::error(),
        },
        ("length", 1) => match &args[0] { RV::Text(s) => Expect::val(RV::Int(s.chars().count() as i64)), RV::Null => null_or_err(), _ => Expect::error() },
        ("upper", 1) => match &args[0] { RV::Text(s) => Expect::val(RV::Text(s.to_uppercase())), RV::Null => null_or_err(), _ => Expect::error() },
        ("lower", 1) => match &args[0] { RV::Text(s) => Expect::val(RV::Text(s.to_lowercase())), RV::Null => null_or_err(), _ => Expect::error() },
        ("regexp_matches", 2) => match (&args[0], &args[1]) {
            (RV::Text(s), RV::Text(p)) => match regex::Regex::new(p) { Ok(re) => Expect::boolean(re.is_match(s)), Err(_) => Expect::error() },
            (RV::Null, RV::Text(p)) => { let mut e = Expect::vals(vec![RV::Bool(false), RV::Null]); if regex::Regex::new(p).is_err() { e.err = true; } e }
            (RV::Text(_), RV::Null) | (RV::Null, RV::Null) => Expect::vals(vec![RV::Bool(false), RV::Null]).or_err(),
            _ => Expect::error(),
        },
        ("array_unique", 1) => match &args[0] {
            RV::Arr(t, xs) => {
                // same set, any order: enumerate nothing, the check is done by `admits_array_unique`
                let mut uniq: Vec<RV> = Vec::new();
                for x in xs { if !uniq.iter().any(|u| eq_ref(u, x) == Some(true) || (has_nan(u) && has_nan(x))) { uniq.push(x.clone()); } }
                let mut sorted = uniq.clone();
                sorted.sort_by(|a, b| cmp_ref(a, b).unwrap_or(Ordering::Equal));
                let mut nan_last = sorted.clone();
                nan_last.sort_by(|a, b| match (has_nan(a), has_nan(b)) { (true, false) => Ordering::Greater, (false, true) => Ordering::Less, _ => cmp_ref(a, b).unwrap_or(Ordering::Equal) });
                Expect::vals(vec![RV::Arr(t.clone(), uniq), RV::Arr(t.clone(), sorted), RV::Arr(t.clone(), nan_last)])
            }
            RV::Null => null_or_err(),
            _ => Expect::error(),
        },
        ("array_length", 1) => match &args[0] { RV::Arr(_, xs) => Expect::val(RV::Int(xs.len() as i64)), RV::Null => null_or_err(), _ => Expect::error() },
        ("array_cat", 2) => match (&args[0], &args[1]) {
            (RV::Arr(t1, a), RV::Arr(t2, b)) => if t1 == t2 { let mut v = a.clone(); v.extend(b.iter().cloned()); Expect::val(RV::Arr(t1.clone(), v)) } else { Expect::error() },
            (a, b) if (a.is_null() && matches!(b, RV::Arr(..) | RV::Null)) || (b.is_null() && matches!(a, RV::Arr(..))) => { let mut e = null_or_err(); if let RV::Arr(..) = a { e.vals.push(a.clone()); } if let RV::Arr(..) = b { e.vals.push(b.clone()); } e }
            _ => Expect::error(),
        },
        ("array_append", 2) => match (&args[0], &args[1]) {
            (RV::Arr(t, a), v) => if v.ty().as_ref() == Some(t) { let mut x = a.clone(); x.push(v.clone()); Expect::val(RV::Arr(t.clone(), x)) } else if v.is_null() { let mut x = a.clone(); x.push(RV::Null); Expect::val(RV::Arr(t.clone(), x)).or_err() } else { Expect::error() },
            (RV::Null, _) => null_or_err(),
            _ => Expect::error(),
        },
        ("array_prepend", 2) => match (&args[0], &args[1]) {
            (v, RV::Arr(t, a)) => if v.ty().as_ref() == Some(t) { let mut x = vec![v.clone()]; x.extend(a.iter().cloned()); Expect::val(RV::Arr(t.clone(), x)) } else if v.is_null() { let mut x = vec![RV::Null]; x.extend(a.iter().cloned()); Expect::val(RV::Arr(t.clone(), x)).or_err() } else { Expect::error() },
            (_, RV::Null) => null_or_err(),
            _ => Expect::error(),
        },
        ("now", 0) => Expect { any_ts: true, ..Default::default() },
        ("make_timestamp", 7) | ("make_timestamp", 8) => {
            if null_arg(&args[..7]) { return null_or_err(); }
            let ints: Option<Vec<i64>> = args[..7].iter().map(|a| if let RV::Int(i) = a { Some(*i) } else { None }).collect();
            match ints {
                None => Expect::error(),
                Some(p) => {
                    let mut e = Expect::default();
                    let as_ms = p[6].checked_mul(1000).and_then(|us| if (0..1000).contains(&p[6]) { ts_from_parts(p[0], p[1], p[2], p[3], p[4], p[5], us) } else { None });
                    let as_us = if (0..1_000_000).contains(&p[6]) { ts_from_parts(p[0], p[1], p[2], p[3], p[4], p[5], p[6]) } else { None };
                    if let Some(t) = as_ms { e.vals.push(RV::Ts(t)); }
                    if let Some(t) = as_us { e.vals.push(RV::Ts(t)); }
                    if e.vals.is_empty() { e.vals.push(RV::Null); e.err = true; }
                    // the arity the code wants and the arity the README documents differ: either call may also be "undefined"
                    e
                }
            }
        }
        ("date_trunc", 2) => match (&args[0], &args[1]) {
            (RV::Text(part), RV::Ts(t)) => {
                let c = parts_from_ts(*t);
                let v = match part.as_str() {
                    "year" => ts_from_parts(c.y, 1, 1, 0, 0, 0, 0), "month" => ts_from_parts(c.y, c.mo, 1, 0, 0, 0, 0), "day" => ts_from_parts(c.y, c.mo, c.d, 0, 0, 0, 0),
                    "hour" => ts_from_parts(c.y, c.mo, c.d, c.h, 0, 0, 0), "minute" => ts_from_parts(c.y, c.mo, c.d, c.h, c.mi, 0, 0), "second" => ts_from_parts(c.y, c.mo, c.d, c.h, c.mi, c.s, 0),
                    "milliseconds" => return Expect::val(RV::Ts(t - t.rem_euclid(1000))).or_err(), "microseconds" => return Expect::val(RV::Ts(*t)).or_err(),
                    _ => return Expect::error(),
                };
                // truncation by a duration works on a nanosecond count, which only spans the years 1677..2262: outside, an error is tolerated
                let outside_ns_range = *t < -9_200_000_000_000_000 || *t > 9_200_000_000_000_000;
                match v { Some(v) => { let e = Expect::val(RV::Ts(v)); if outside_ns_range && matches!(part.as_str(), "hour" | "minute" | "second") { e.or_err() } else { e } } None => Expect::error() }
            }
            (RV::Text(_), RV::Null) | (RV::Null, _) => null_or_err(),
            _ => Expect::error(),
        },
        (n, 1) if n.starts_with("extract:") => match &args[0] {
            RV::Ts(t) => {
                let c = parts_from_ts(*t);
                match &n[8..] {
                    "epoch" => { let mut e = Expect::val(RV::Real(*t as f64 / 1e6)); e.vals.push(RV::Real((*t).div_euclid(1000) as f64 / 1000.0)); e.tol = 1e-12; e }
                    "year" => Expect::val(RV::Int(c.y)), "month" => Expect::val(RV::Int(c.mo)), "day" => Expect::val(RV::Int(c.d)),
                    "hour" => Expect::val(RV::Int(c.h)), "minute" => Expect::val(RV::Int(c.mi)), "second" => Expect::val(RV::Int(c.s)),
                    _ => Expect::error(),
                }
            }
            RV::Null => null_or_err(),
            _ => Expect::error(),
        },
        ("create_array", _) => {
            let tys: Vec<Ty> = args.iter().filter_map(|a| a.ty()).collect();
            if tys.is_empty() { return Expect::error(); }
            if tys.iter().any(|t| *t != tys[0]) { return Expect::error(); }
            Expect::val(RV::Arr(tys[0].clone(), args.to_vec()))
        }
        _ => Expect::error(),
    }
}

/// intervals are kept in microseconds by the harness; the engine's reach is 1000 times larger
pub fn opaque(v: &RV) -> bool {
    match v { RV::Iv(x) => x.unsigned_abs() >= (i64::MAX / 1000 * 1000) as u64 - 1_000_000, RV::Arr(_, xs) => xs.iter().any(opaque), _ => false }
}

/// expectation for one node given its children's outcomes (children in `ExpressionTree` order)
pub fn node(tree: &ExpressionTree, kids: &[Outcome], column: &dyn Fn(&str) -> Option<RV>) -> Expect {
    if kids.iter().any(|k| matches!(k, Outcome::Val(v) if opaque(v))) { return Expect { anything: true, ..Default::default() }; }
    let err_kid = kids.iter().any(|k| matches!(k, Outcome::Err(_)));
    let v = |i: usize| -> &RV { match &kids[i] { Outcome::Val(v) => v, Outcome::Err(_) => &RV::Null } };
    match tree {
        ExpressionTree::Value(val) => Expect::val(RV::from_engine(val)),
        ExpressionTree::ColumnAccess(name) => match column(name) { Some(v) => Expect::val(v), None => Expect::error() },
        ExpressionTree::ScopedColumnAccess(..) | ExpressionTree::Wildcard | ExpressionTree::Aggregate(..) => Expect::error(),
        ExpressionTree::Compare { operator, .. } => if err_kid { Expect::error() } else { compare(operator, v(0), v(1)) },
        ExpressionTree::NullableCompare { operator, .. } => {
            if err_kid { return Expect::error(); }
            let is = *operator == NullableCompareOperator::Equal;
            let (l, r) = (v(0), v(1));
            if l.is_null() || r.is_null() { return Expect::boolean((l.is_null() && r.is_null()) == is); }
            if l.ty() == r.ty() { if has_nan(l) || has_nan(r) { return Expect::both_bools(); } return match eq_ref(l, r) { Some(e) => Expect::boolean(e == is), None => Expect::both_bools().or_err() }; }
            let mut e = Expect::boolean(!is).or_err();
            if is_numeric(l) && is_numeric(r) { if let Some(eq) = eq_ref(l, r) { e.vals.push(RV::Bool(eq == is)); } }
            e
        }
        ExpressionTree::Arithmetic { operator, .. } => if err_kid { Expect::error() } else { arithmetic(operator, v(0), v(1)) },
        ExpressionTree::UnaryArithmetic { operator, .. } => {
            if err_kid { return Expect::error(); }
            match (operator, v(0)) {
                (UnaryArithmeticOperator::Negative, RV::Int(i)) => i.checked_neg().map(|x| Expect::val(RV::Int(x))).unwrap_or_else(Expect::error),
                (UnaryArithmeticOperator::Negative, RV::Real(x)) => Expect::val(RV::Real(-x)),
                (UnaryArithmeticOperator::Negative, RV::Iv(x)) => x.checked_neg().map(|x| Expect::val(RV::Iv(x)).or_err()).unwrap_or_else(Expect::error),
                (UnaryArithmeticOperator::Negative, RV::Null) => Expect::val(RV::Null),
                (UnaryArithmeticOperator::Invert, RV::Bool(b)) => Expect::boolean(!b),
                (UnaryArithmeticOperator::Invert, RV::Null) => Expect::vals(vec![RV::Null, RV::Bool(true)]),
                _ => Expect::error(),
            }
        }
        ExpressionTree::BooleanOperation { operator, .. } => {
            let is_and = *operator == BooleanOperator::And;
            // left operand is always evaluated
            let l = match &kids[0] { Outcome::Err(_) => return Expect::error(), Outcome::Val(l) => l };
            let lt = truth(l);
            let mut e = Expect::default();
            if lt.is_none() { e.err = true; }
            let lb = lt.unwrap_or(false);
            let decided = if is_and { !lb } else { lb };
            match &kids[1] {
                Outcome::Err(_) => { if decided { e.vals.push(RV::Bool(lb)); } e.err = true; }
                Outcome::Val(r) => {
                    let rt = truth(r);
                    if rt.is_none() { e.err = true; }
                    let rb = rt.unwrap_or(false);
                    e.vals.push(RV::Bool(if is_and { lb && rb } else { lb || rb }));
                }
            }
            e
        }
        ExpressionTree::In { is_not, .. } => {
            let x = match &kids[0] { Outcome::Err(_) => return Expect::error(), Outcome::Val(x) => x };
            let mut e = Expect::default();
            if kids[1..].iter().any(|k| matches!(k, Outcome::Err(_))) { e.err = true; } // an eager implementation evaluates every element
            // x IN (v..) = OR of x = v_i ; x NOT IN (v..) = AND of x != v_i ; elements are looked at in order, lazily
            let op = if *is_not { CompareOperator::NotEqual } else { CompareOperator::Equal };
            let mut undecided = true;
            for k in &kids[1..] {
                if !undecided { break; }
                match k {
                    Outcome::Err(_) => { e.err = true; undecided = false; }
                    Outcome::Val(vi) => {
                        let c = compare(&op, x, vi);
                        if c.err { e.err = true; }
                        let can_true = c.vals.iter().any(|b| matches!(b, RV::Bool(true)));
                        let can_false = c.vals.iter().any(|b| matches!(b, RV::Bool(false)));
                        // IN stops with `true` at the first equal element, NOT IN stops with `false` at the first element that is not unequal
                        if *is_not { if can_false { e.vals.push(RV::Bool(false)); } undecided = can_true; }
                        else { if can_true { e.vals.push(RV::Bool(true)); } undecided = can_false; }
                    }
                }
            }
            if undecided { e.vals.push(RV::Bool(*is_not)); }
            // an implementation that compares every element (no early exit) also reports the errors of later elements
            for k in &kids[1..] { if let Outcome::Val(vi) = k { if compare(&op, x, vi).err { e.err = true; } } }
            e
        }
        ExpressionTree::FunctionCall { function: f, .. } => {
            if err_kid { return Expect::error(); }
            let args: Vec<RV> = (0..kids.len()).map(|i| v(i).clone()).collect();
            function(f, &args)
        }
        ExpressionTree::ArrayElementAccess { .. } => {
            if let Outcome::Err(_) = &kids[0] { return Expect::error(); }
            match v(0) {
                RV::Arr(_, xs) => match &kids[1] {
                    Outcome::Err(_) => Expect::error(),
                    Outcome::Val(RV::Int(i)) => if *i >= 1 && (*i as u64) <= xs.len() as u64 { Expect::val(xs[(*i - 1) as usize].clone()) } else { Expect::val(RV::Null).or_err() },
                    Outcome::Val(RV::Null) => Expect::val(RV::Null).or_err(),
                    Outcome::Val(_) => Expect::error(),
                },
                // the index of a non-array may or may not be evaluated
                RV::Null => Expect::val(RV::Null).or_err(),
                _ => Expect::error(),
            }
        }
        ExpressionTree::TypeConversion { convert_to_type, .. } => if err_kid { Expect::error() } else { cast(v(0), &Ty::from_engine(convert_to_type)) },
        ExpressionTree::Case { clauses, .. } => {
            let mut e = Expect::default();
            let any_err = err_kid;
            for i in 0..clauses.len() {
                match &kids[2 * i] {
                    Outcome::Err(_) => { e.err = true; return e; }
                    Outcome::Val(c) => {
                        if truth(c).is_none() { e.err = true; }
                        if truth(c) == Some(true) {
                            match &kids[2 * i + 1] { Outcome::Val(r) => e.vals.push(r.clone()), Outcome::Err(_) => e.err = true }
                            if any_err { e.err = true; } // eager evaluation of all branches is tolerated
                            return e;
                        }
                    }
                }
            }
            match &kids[2 * clauses.len()] { Outcome::Val(r) => e.vals.push(r.clone()), Outcome::Err(_) => e.err = true }
            if any_err { e.err = true; }
            e
        }
    }
}

pub fn children(tree: &ExpressionTree) -> Vec<&ExpressionTree> {
    match tree {
        ExpressionTree::Value(_) | ExpressionTree::ColumnAccess(_) | ExpressionTree::ScopedColumnAccess(..) | ExpressionTree::Wildcard | ExpressionTree::Aggregate(..) => vec![],
        ExpressionTree::Compare { left, right, .. } | ExpressionTree::NullableCompare { left, right, .. } | ExpressionTree::Arithmetic { left, right, .. } | ExpressionTree::BooleanOperation { left, right, .. } => vec![left, right],
        ExpressionTree::UnaryArithmetic { operand, .. } | ExpressionTree::TypeConversion { operand, .. } => vec![operand],
        ExpressionTree::In { operand, values, .. } => { let mut v: Vec<&ExpressionTree> = vec![operand]; v.extend(values.iter()); v }
        ExpressionTree::FunctionCall { arguments, .. } => arguments.iter().collect(),
        ExpressionTree::ArrayElementAccess { array, index } => vec![array, index],
        ExpressionTree::Case { clauses, else_clause } => { let mut v = Vec::new(); for (c, r) in clauses { v.push(c); v.push(r); } v.push(else_clause.as_ref()); v }
    }
}

pub fn node_kind(tree: &ExpressionTree) -> String {
    match tree {
        ExpressionTree::Value(_) => "Value".into(), ExpressionTree::ColumnAccess(_) => "Column".into(), ExpressionTree::ScopedColumnAccess(..) => "ScopedColumn".into(), ExpressionTree::Wildcard => "Wildcard".into(),
        ExpressionTree::Compare { operator, .. } => format!("Compare {}", crate::conv::compare_name(operator)),
        ExpressionTree::NullableCompare { operator, .. } => format!("{}", operator),
        ExpressionTree::Arithmetic { operator, .. } => format!("Arithmetic {}", crate::conv::arith_name(operator)),
        ExpressionTree::BooleanOperation { operator, .. } => format!("{}", operator),
        ExpressionTree::UnaryArithmetic { operator, .. } => match operator { UnaryArithmeticOperator::Negative => "Negate".into(), UnaryArithmeticOperator::Invert => "NOT".into() },
        ExpressionTree::In { is_not, .. } => if *is_not { "NOT IN".into() } else { "IN".into() },
        ExpressionTree::FunctionCall { function, .. } => format!("Function {}", function_name(function)),
        ExpressionTree::ArrayElementAccess { .. } => "Subscript".into(),
        ExpressionTree::TypeConversion { convert_to_type, .. } => format!("Cast ::{}", Ty::from_engine(convert_to_type).tag()),
        ExpressionTree::Case { .. } => "CASE".into(),
        ExpressionTree::Aggregate(..) => "Aggregate".into(),
    }
}

#[allow(dead_code)]
fn _t(_: ValueType) {}
