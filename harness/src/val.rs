//! Reference values: the harness' own value domain, order, equality, literal grammars and
//! civil-date arithmetic (DESIGN Appendix A.1-A.3). Independent of sqlgrep's `Value` impls.

use std::cmp::Ordering;

use sqlgrep::model::{Value, ValueType};

#[derive(Clone, Debug, PartialEq, Eq, Hash, PartialOrd, Ord)]
pub enum Ty { Int, Real, Bool, Text, Arr(Box<Ty>), Ts, Iv }

impl Ty {
    pub fn from_engine(t: &ValueType) -> Ty {
        match t {
            ValueType::Int => Ty::Int,
            ValueType::Float => Ty::Real,
            ValueType::Bool => Ty::Bool,
            ValueType::String => Ty::Text,
            ValueType::Array(e) => Ty::Arr(Box::new(Ty::from_engine(e))),
            ValueType::Timestamp => Ty::Ts,
            ValueType::Interval => Ty::Iv,
        }
    }
    pub fn to_engine(&self) -> ValueType {
        match self {
            Ty::Int => ValueType::Int,
            Ty::Real => ValueType::Float,
            Ty::Bool => ValueType::Bool,
            Ty::Text => ValueType::String,
            Ty::Arr(e) => ValueType::Array(Box::new(e.to_engine())),
            Ty::Ts => ValueType::Timestamp,
            Ty::Iv => ValueType::Interval,
        }
    }
    pub fn sql(&self) -> String {
        match self {
            Ty::Int => "INT".into(), Ty::Real => "REAL".into(), Ty::Bool => "BOOLEAN".into(), Ty::Text => "TEXT".into(),
            Ty::Arr(e) => format!("{}[]", e.sql()), Ty::Ts => "TIMESTAMP".into(), Ty::Iv => "INTERVAL".into(),
        }
    }
    pub fn tag(&self) -> String {
        match self {
            Ty::Int => "Int".into(), Ty::Real => "Real".into(), Ty::Bool => "Bool".into(), Ty::Text => "Text".into(),
            Ty::Arr(e) => format!("{}[]", e.tag()), Ty::Ts => "Ts".into(), Ty::Iv => "Iv".into(),
        }
    }
}

/// Reference value. `Ts` = microseconds since the epoch of the local (TZ=UTC) instant, `Iv` = microseconds.
#[derive(Clone, Debug)]
pub enum RV {
    Null,
    Int(i64),
    Real(f64),
    Bool(bool),
    Text(String),
    Arr(Ty, Vec<RV>),
    Ts(i64),
    Iv(i64),
}

impl RV {
    pub fn from_engine(v: &Value) -> RV {
        match v {
            Value::Null => RV::Null,
            Value::Int(x) => RV::Int(*x),
            Value::Float(x) => RV::Real(x.0),
            Value::Bool(x) => RV::Bool(*x),
            Value::String(x) => RV::Text(x.clone()),
            Value::Array(t, xs) => RV::Arr(Ty::from_engine(t), xs.iter().map(RV::from_engine).collect()),
            Value::Timestamp(t) => RV::Ts(t.timestamp_micros()),
            Value::Interval(d) => RV::Iv(d.num_microseconds().unwrap_or_else(|| d.num_milliseconds().saturating_mul(1000))),
        }
    }

    pub fn is_null(&self) -> bool { matches!(self, RV::Null) }

    pub fn ty(&self) -> Option<Ty> {
        match self {
            RV::Null => None,
            RV::Int(_) => Some(Ty::Int), RV::Real(_) => Some(Ty::Real), RV::Bool(_) => Some(Ty::Bool), RV::Text(_) => Some(Ty::Text),
            RV::Arr(t, _) => Some(Ty::Arr(Box::new(t.clone()))), RV::Ts(_) => Some(Ty::Ts), RV::Iv(_) => Some(Ty::Iv),
        }
    }

    /// runtime type tag used in signatures (NULL marked)
    pub fn tag(&self) -> String { self.ty().map(|t| t.tag()).unwrap_or_else(|| "NULL".to_owned()) }

    /// Structural sameness used to compare an observed value with an expected one:
    /// exact for everything, REAL by bits with NaN==NaN and -0.0==0.0, optional relative tolerance.
    pub fn same(&self, other: &RV, tol: f64) -> bool {
        match (self, other) {
            (RV::Null, RV::Null) => true,
            (RV::Int(a), RV::Int(b)) => a == b,
            (RV::Real(a), RV::Real(b)) => real_same(*a, *b, tol),
            (RV::Bool(a), RV::Bool(b)) => a == b,
            (RV::Text(a), RV::Text(b)) => a == b,
            (RV::Ts(a), RV::Ts(b)) => a == b,
            (RV::Iv(a), RV::Iv(b)) => a == b,
            (RV::Arr(ta, a), RV::Arr(tb, b)) => ta == tb && a.len() == b.len() && a.iter().zip(b).all(|(x, y)| x.same(y, tol)),
            _ => false,
        }
    }

    /// identical as printed: REALs bit for bit (so -0.0 differs from 0.0; all NaNs count as one)
    pub fn identical(&self, other: &RV) -> bool {
        match (self, other) {
            (RV::Real(a), RV::Real(b)) => a.to_bits() == b.to_bits() || (a.is_nan() && b.is_nan()),
            (RV::Arr(ta, a), RV::Arr(tb, b)) => ta == tb && a.len() == b.len() && a.iter().zip(b).all(|(x, y)| x.identical(y)),
            _ => self.same(other, 0.0),
        }
    }

    pub fn show(&self) -> String {
        match self {
            RV::Null => "NULL".into(),
            RV::Int(x) => format!("{}", x),
            RV::Real(x) => format!("{:?}r", x),
            RV::Bool(x) => format!("{}", x),
            RV::Text(x) => format!("{:?}", x),
            RV::Arr(t, xs) => format!("{}[{}]", t.tag(), xs.iter().map(|x| x.show()).collect::<Vec<_>>().join(",")),
            RV::Ts(x) => format!("ts({})", fmt_ts_micros(*x)),
            RV::Iv(x) => format!("iv({}us)", x),
        }
    }
}

pub fn real_same(a: f64, b: f64, tol: f64) -> bool {
    if a.is_nan() || b.is_nan() { return a.is_nan() && b.is_nan(); }
    if a == b { return true; }
    if tol > 0.0 && a.is_finite() && b.is_finite() {
        let scale = a.abs().max(b.abs()).max(1e-300);
        return (a - b).abs() <= tol * scale || (a - b).abs() <= tol * 1e-3;
    }
    false
}

pub fn show_row(row: &[RV]) -> String { format!("({})", row.iter().map(|v| v.show()).collect::<Vec<_>>().join(", ")) }

// ---------------------------------------------------------------------------------------------
// A.3 reference order

pub fn cmp_int_real(i: i64, f: f64) -> Option<Ordering> {
    if f.is_nan() { return None; }
    if f >= 9223372036854775808.0 { return Some(Ordering::Less); }
    if f < -9223372036854775808.0 { return Some(Ordering::Greater); }
    let t = f.trunc();
    let ti = t as i64;
    Some(match i.cmp(&ti) {
        Ordering::Equal => if f > t { Ordering::Less } else if f < t { Ordering::Greater } else { Ordering::Equal },
        o => o,
    })
}

/// The reference total order on comparable values; `None` = not comparable (different types, NaN).
/// NULL sorts first (only used for group ordering; comparisons treat NULL separately).
pub fn cmp_ref(a: &RV, b: &RV) -> Option<Ordering> {
    match (a, b) {
        (RV::Null, RV::Null) => Some(Ordering::Equal),
        (RV::Null, _) => Some(Ordering::Less),
        (_, RV::Null) => Some(Ordering::Greater),
        (RV::Int(x), RV::Int(y)) => Some(x.cmp(y)),
        (RV::Real(x), RV::Real(y)) => x.partial_cmp(y),
        (RV::Int(x), RV::Real(y)) => cmp_int_real(*x, *y),
        (RV::Real(x), RV::Int(y)) => cmp_int_real(*y, *x).map(|o| o.reverse()),
        (RV::Bool(x), RV::Bool(y)) => Some(x.cmp(y)),
        (RV::Text(x), RV::Text(y)) => Some(x.as_bytes().cmp(y.as_bytes())),
        (RV::Ts(x), RV::Ts(y)) => Some(x.cmp(y)),
        (RV::Iv(x), RV::Iv(y)) => Some(x.cmp(y)),
        (RV::Arr(_, x), RV::Arr(_, y)) => {
            for (p, q) in x.iter().zip(y.iter()) {
                match cmp_ref(p, q)? { Ordering::Equal => {}, o => return Some(o) }
            }
            Some(x.len().cmp(&y.len()))
        }
        _ => None,
    }
}

pub fn eq_ref(a: &RV, b: &RV) -> Option<bool> { cmp_ref(a, b).map(|o| o == Ordering::Equal) }

/// tuple equality for DISTINCT / group keys (NULL = NULL, numbers by value)
pub fn tuple_eq(a: &[RV], b: &[RV]) -> bool {
    a.len() == b.len() && a.iter().zip(b).all(|(x, y)| eq_ref(x, y) == Some(true))
}

pub fn tuple_cmp(a: &[RV], b: &[RV]) -> Option<Ordering> {
    for (x, y) in a.iter().zip(b) {
        match cmp_ref(x, y)? { Ordering::Equal => {}, o => return Some(o) }
    }
    Some(a.len().cmp(&b.len()))
}

// ---------------------------------------------------------------------------------------------
// civil dates (proleptic Gregorian), hand written

pub fn days_from_civil(y: i64, m: i64, d: i64) -> i64 {
    let y = if m <= 2 { y - 1 } else { y };
    let era = if y >= 0 { y } else { y - 399 } / 400;
    let yoe = y - era * 400;
    let mp = (m + 9) % 12;
    let doy = (153 * mp + 2) / 5 + d - 1;
    let doe = yoe * 365 + yoe / 4 - yoe / 100 + doy;
    era * 146097 + doe - 719468
}

pub fn civil_from_days(z: i64) -> (i64, i64, i64) {
    let z = z + 719468;
    let era = if z >= 0 { z } else { z - 146096 } / 146097;
    let doe = z - era * 146097;
    let yoe = (doe - doe / 1460 + doe / 36524 - doe / 146096) / 365;
    let y = yoe + era * 400;
    let doy = doe - (365 * yoe + yoe / 4 - yoe / 100);
    let mp = (5 * doy + 2) / 153;
    let d = doy - (153 * mp + 2) / 5 + 1;
    let m = if mp < 10 { mp + 3 } else { mp - 9 };
    (if m <= 2 { y + 1 } else { y }, m, d)
}

pub fn is_leap(y: i64) -> bool { (y % 4 == 0 && y % 100 != 0) || y % 400 == 0 }

pub fn days_in_month(y: i64, m: i64) -> i64 {
    match m { 1 | 3 | 5 | 7 | 8 | 10 | 12 => 31, 4 | 6 | 9 | 11 => 30, 2 => if is_leap(y) { 29 } else { 28 }, _ => 0 }
}

/// local (UTC) civil fields -> epoch micros, `None` when a part is out of its natural range
pub fn ts_from_parts(y: i64, mo: i64, d: i64, h: i64, mi: i64, s: i64, us: i64) -> Option<i64> {
    // chrono's calendar reaches years -262143 ..= 262142
    if !(-262143..=262142).contains(&y) { return None; }
    if !(1..=12).contains(&mo) { return None; }
    if d < 1 || d > days_in_month(y, mo) { return None; }
    if !(0..24).contains(&h) || !(0..60).contains(&mi) || !(0..60).contains(&s) || !(0..1_000_000).contains(&us) { return None; }
    let days = days_from_civil(y, mo, d);
    Some(((days * 86400 + h * 3600 + mi * 60 + s) * 1_000_000) + us)
}

pub struct Civil { pub y: i64, pub mo: i64, pub d: i64, pub h: i64, pub mi: i64, pub s: i64, pub us: i64 }

pub fn parts_from_ts(micros: i64) -> Civil {
    let secs = micros.div_euclid(1_000_000);
    let us = micros.rem_euclid(1_000_000);
    let days = secs.div_euclid(86400);
    let sod = secs.rem_euclid(86400);
    let (y, mo, d) = civil_from_days(days);
    Civil { y, mo, d, h: sod / 3600, mi: (sod / 60) % 60, s: sod % 60, us }
}

pub fn fmt_ts_micros(micros: i64) -> String {
    let c = parts_from_ts(micros);
    format!("{:04}-{:02}-{:02} {:02}:{:02}:{:02}.{:06}", c.y, c.mo, c.d, c.h, c.mi, c.s, c.us)
}

// ---------------------------------------------------------------------------------------------
// A.1 literal grammars

pub fn parse_int_lit(s: &str) -> Option<i64> {
    let b = s.as_bytes();
    if b.is_empty() { return None; }
    let (neg, digits) = match b[0] { b'-' => (true, &b[1..]), b'+' => (false, &b[1..]), _ => (false, b) };
    if digits.is_empty() { return None; }
    let mut acc: i64 = 0;
    for &c in digits {
        if !c.is_ascii_digit() { return None; }
        let d = (c - b'0') as i64;
        acc = acc.checked_mul(10)?;
        acc = if neg { acc.checked_sub(d)? } else { acc.checked_add(d)? };
    }
    Some(acc)
}

/// recogniser for Rust's `f64::from_str` grammar; the numeric value itself is taken from std (trusted)
pub fn parse_real_lit(s: &str) -> Option<f64> {
    let b = s.as_bytes();
    if b.is_empty() { return None; }
    let body = match b[0] { b'+' | b'-' => &s[1..], _ => s };
    if body.is_empty() { return None; }
    let lower = body.to_ascii_lowercase();
    let ok = if lower == "inf" || lower == "infinity" || lower == "nan" { true } else {
        let bb = lower.as_bytes();
        let mut i = 0;
        let mut int_digits = 0;
        while i < bb.len() && bb[i].is_ascii_digit() { i += 1; int_digits += 1; }
        let mut frac_digits = 0;
        if i < bb.len() && bb[i] == b'.' {
            i += 1;
            while i < bb.len() && bb[i].is_ascii_digit() { i += 1; frac_digits += 1; }
        }
        if int_digits + frac_digits == 0 { false } else if i == bb.len() { true } else if bb[i] == b'e' {
            i += 1;
            if i < bb.len() && (bb[i] == b'+' || bb[i] == b'-') { i += 1; }
            let mut exp_digits = 0;
            while i < bb.len() && bb[i].is_ascii_digit() { i += 1; exp_digits += 1; }
            exp_digits > 0 && i == bb.len()
        } else { false }
    };
    if !ok { return None; }
    s.parse::<f64>().ok()
}

pub fn parse_bool_lit(s: &str) -> Option<bool> { match s { "true" => Some(true), "false" => Some(false), _ => None } }

pub enum TsLit {
    /// canonical `YYYY-MM-DD HH:MM:SS`, all parts in range
    Exact(i64),
    /// clearly not a timestamp
    No,
    /// lenient shapes: NULL or (when the fields are in range) that instant
    Maybe(Option<i64>),
}

pub fn parse_ts_lit(s: &str) -> TsLit {
    let canon = regex::Regex::new(r"^(\d{4})-(\d{2})-(\d{2}) (\d{2}):(\d{2}):(\d{2})$").unwrap();
    if let Some(c) = canon.captures(s) {
        let g = |i: usize| c[i].parse::<i64>().unwrap();
        return match ts_from_parts(g(1), g(2), g(3), g(4), g(5), g(6), 0) {
            Some(t) => TsLit::Exact(t),
            // second = 60: a leap second for some parsers (the instant one second after :59), not a literal for others
            None if g(6) == 60 => TsLit::Maybe(ts_from_parts(g(1), g(2), g(3), g(4), g(5), 59, 0).map(|t| t + 1_000_000)),
            // e.g. day 31 in a 30 day month
            None => TsLit::Maybe(None),
        };
    }
    // lenient shapes a date library may accept: optional blanks around every field, a sign and any number of year digits,
    // one or two digits for the other fields (so "2021-3-4 5:6:7", " 2021-03-04 05:06:07" and "2021-03-0405:06:07")
    let b: Vec<char> = s.chars().collect();
    let mut i = 0;
    let skip_ws = |i: &mut usize| { while *i < b.len() && b[*i].is_whitespace() { *i += 1; } };
    let digits = |i: &mut usize, max: usize| -> Option<i64> { let st = *i; while *i < b.len() && b[*i].is_ascii_digit() && *i - st < max { *i += 1; } if *i == st { None } else { b[st..*i].iter().collect::<String>().parse::<i64>().ok() } };
    let lit = |i: &mut usize, c: char| -> bool { if *i < b.len() && b[*i] == c { *i += 1; true } else { false } };
    let parsed = (|| -> Option<[i64; 6]> {
        skip_ws(&mut i);
        let neg = if lit(&mut i, '-') { true } else { lit(&mut i, '+'); false };
        let y = digits(&mut i, 9)?; skip_ws(&mut i);
        if !lit(&mut i, '-') { return None; } skip_ws(&mut i);
        let mo = digits(&mut i, 2)?; skip_ws(&mut i);
        if !lit(&mut i, '-') { return None; } skip_ws(&mut i);
        let d = digits(&mut i, 2)?; skip_ws(&mut i);
        let h = digits(&mut i, 2)?; skip_ws(&mut i);
        if !lit(&mut i, ':') { return None; } skip_ws(&mut i);
        let mi = digits(&mut i, 2)?; skip_ws(&mut i);
        if !lit(&mut i, ':') { return None; } skip_ws(&mut i);
        let se = digits(&mut i, 2)?; skip_ws(&mut i);
        if i != b.len() { return None; }
        Some([if neg { -y } else { y }, mo, d, h, mi, se])
    })();
    if let Some(p) = parsed {
        if p[5] == 60 { return TsLit::Maybe(ts_from_parts(p[0], p[1], p[2], p[3], p[4], 59, 0).map(|t| t + 1_000_000)); }
        // Which of these non-canonical spellings are literals is defined by nothing but the date library the project uses
        // (chrono's `%Y-%m-%d %H:%M:%S`: it takes some of them and refuses others). The library itself is the reference
        // here: what it reads must be read (as that instant), what it refuses is no literal. The canonical spelling above
        // is judged by the harness' own calendar.
        return match chrono::NaiveDateTime::parse_from_str(s, "%Y-%m-%d %H:%M:%S") {
            Ok(_) => match ts_from_parts(p[0], p[1], p[2], p[3], p[4], p[5], 0) { Some(t) => TsLit::Exact(t), None => TsLit::Maybe(None) },
            Err(_) => TsLit::No,
        };
    }
    // spellings outside the recogniser above that the library nevertheless reads: its instant (seconds 60 apart: leap notation)
    if let Ok(n) = chrono::NaiveDateTime::parse_from_str(s, "%Y-%m-%d %H:%M:%S") {
        let us = n.and_utc().timestamp_micros();
        return if chrono::Timelike::nanosecond(&n) >= 1_000_000_000 { TsLit::Maybe(Some(us)) } else { TsLit::Exact(us) };
    }
    TsLit::No
}

pub enum IvLit { Exact(i64), No, OutOfRange,
    /// representable by the engine (millisecond range of i64) but not in the harness' microsecond domain
    Huge }

pub fn parse_iv_lit(s: &str) -> IvLit {
    let parts: Vec<&str> = s.split(':').collect();
    if parts.len() != 3 { return IvLit::No; }
    let (Some(h), Some(m), Some(sec)) = (parse_int_lit(parts[0]), parse_int_lit(parts[1]), parse_int_lit(parts[2])) else { return IvLit::No };
    // chrono's TimeDelta holds about +-i64::MAX milliseconds
    let total = (h as i128) * 3600 + (m as i128) * 60 + sec as i128;
    let lim = (i64::MAX / 1000) as i128;
    let part_lim = |x: i64, unit: i128| (x as i128 * unit).abs() <= lim;
    if !part_lim(h, 3600) || !part_lim(m, 60) || !part_lim(sec, 1) || total.abs() > lim { return IvLit::OutOfRange; }
    if total.abs() > (i64::MAX / 1_000_000) as i128 { return IvLit::Huge; }
    IvLit::Exact(total as i64 * 1_000_000)
}

/// text form the engine documents for values (text / CSV output and ::text casts)
pub fn display_text(v: &RV) -> String {
    match v {
        RV::Null => "NULL".into(),
        RV::Int(x) => format!("{}", x),
        RV::Real(x) => format!("{:.2}", x),
        RV::Bool(x) => format!("{}", x),
        RV::Text(x) => format!("'{}'", x),
        RV::Arr(_, xs) => format!("{{{}}}", xs.iter().map(display_text).collect::<Vec<_>>().join(", ")),
        RV::Ts(x) => { let c = parts_from_ts(*x); format!("{:04}-{:02}-{:02} {:02}:{:02}:{:02}.{:03}", c.y, c.mo, c.d, c.h, c.mi, c.s, c.us / 1000) }
        RV::Iv(x) => {
            let secs = x / 1_000_000; // truncation toward zero like chrono's num_seconds
            let ms = x / 1000 - secs * 1000;
            format!("{:0>2}:{:0>2}:{:0>2}.{:0>3}", (secs / 60) / 60, (secs / 60) % 60, secs % 60, ms)
        }
    }
}

/// Is `shown` the REAL `v` correctly rounded at the precision `shown` itself has (>= 2 decimals), or an exact numeral of `v`?
/// Exact decimal arithmetic on the expansion of the double (no floating-point tolerance): a tie may go either way.
pub fn decimal_rounding_ok(v: f64, shown: &str) -> bool {
    if let Ok(x) = shown.parse::<f64>() { if x.to_bits() == v.to_bits() || (v.is_nan() && x.is_nan()) || (x == v && v != 0.0) { return true; } }
    if !v.is_finite() { return false; }
    let (neg, body) = match shown.strip_prefix('-') { Some(b) => (true, b), None => (false, shown) };
    let (ip, fp) = match body.split_once('.') { Some((a, b)) => (a, b), None => (body, "") };
    if ip.is_empty() || !ip.bytes().all(|c| c.is_ascii_digit()) || !fp.bytes().all(|c| c.is_ascii_digit()) || fp.len() < 2 || fp.len() > 1000 { return false; }
    let d = fp.len();
    let exact = format!("{:.1100}", v.abs());
    let (ei, ef) = exact.split_once('.').unwrap_or((exact.as_str(), ""));
    let lo: Vec<u8> = ei.bytes().chain(ef.bytes().take(d)).map(|c| c - b'0').collect();
    let rem = &ef.as_bytes()[d..];
    let rest_zero = rem[1..].iter().all(|c| *c == b'0');
    let (allow_lo, allow_hi) = if rem[0] < b'5' { (true, false) } else if rem[0] == b'5' && rest_zero { (true, true) } else { (false, true) };
    let mut hi = lo.clone();
    { let mut i = hi.len(); loop { if i == 0 { hi.insert(0, 1); break; } i -= 1; if hi[i] == 9 { hi[i] = 0; } else { hi[i] += 1; break; } } }
    let norm = |digits: &[u8]| -> Vec<u8> { let keep = d + 1; let mut s = digits.to_vec(); while s.len() > keep && s[0] == 0 { s.remove(0); } s };
    let got: Vec<u8> = norm(&ip.bytes().chain(fp.bytes()).map(|c| c - b'0').collect::<Vec<u8>>());
    let sign_ok = |cand: &[u8]| cand.iter().all(|c| *c == 0) || neg == v.is_sign_negative();
    (allow_lo && got == norm(&lo) && sign_ok(&lo)) || (allow_hi && got == norm(&hi) && sign_ok(&hi))
}

#[cfg(test)]
mod rounding_tests {
    use super::decimal_rounding_ok as ok;
    #[test]
    fn roundings() {
        assert!(ok(0.125, "0.12")); assert!(ok(0.125, "0.13")); assert!(!ok(0.125, "0.14"));
        assert!(ok(0.615, "0.61")); assert!(!ok(0.615, "0.62"));
        assert!(ok(-2.675, "-2.67")); assert!(!ok(-2.675, "-2.68")); assert!(!ok(-2.675, "2.67"));
        assert!(ok(1e308, &format!("{:.2}", 1e308f64))); assert!(!ok(1e308, "inf"));
        assert!(ok(-0.001, "-0.00")); assert!(ok(-0.001, "0.00")); assert!(ok(0.0, "0.00")); assert!(ok(-0.0, "-0.00"));
        assert!(ok(9.999, "10.00")); assert!(ok(99.995, "99.99") || ok(99.995, "100.00")); assert!(ok(1.0 / 3.0, "0.33")); assert!(!ok(1.0 / 3.0, "0.34"));
        assert!(ok(5e-324, "0.00")); assert!(ok(2.5, "2.5")); assert!(ok(2.5, "2.50")); assert!(!ok(2.5, "2.4")); assert!(ok(f64::INFINITY, "inf"));
        assert!(ok(123456789.125, "123456789.12")); assert!(ok(123456789.125, "123456789.13")); assert!(ok(1e21, &format!("{:.2}", 1e21f64)));
    }
}
