//! The harness' own SQL AST, its renderers (token lists; fully parenthesised and minimal-parentheses)
//! and a JSON round trip so that cases can be stored and replayed.

use serde_json::{json, Value as J};

use crate::val::Ty;

#[derive(Clone, Debug, PartialEq)]
pub enum E {
    Null,
    Int(u64),          // non-negative literal (negative numbers are Neg(Int))
    Real(f64),         // non-negative finite literal that prints with a '.'
    Bool(bool),
    Str(String),
    Col(String),       // possibly qualified: "t.x"
    Star,
    Neg(Box<E>),
    Not(Box<E>),
    Bin(String, Box<E>, Box<E>),   // + - * / = != < <= > >= AND OR
    Is(bool, Box<E>, Box<E>),      // (is_not, l, r)
    In(bool, Box<E>, Vec<E>),      // (is_not, x, values)
    Call(String, Vec<E>),          // scalar function, lower case name
    Agg(String, bool, Vec<E>),     // aggregate (name, distinct, args)
    Extract(String, Box<E>),
    ArrayLit(Vec<E>),
    Index(Box<E>, Box<E>),
    Cast(Box<E>, Ty),
    Case(Vec<(E, E)>, Box<E>),
}

pub fn b(e: E) -> Box<E> { Box::new(e) }
pub fn bin(op: &str, l: E, r: E) -> E { E::Bin(op.to_owned(), b(l), b(r)) }
pub fn col(n: &str) -> E { E::Col(n.to_owned()) }
pub fn call(n: &str, args: Vec<E>) -> E { E::Call(n.to_owned(), args) }
pub fn int(i: i64) -> E {
    if i >= 0 { E::Int(i as u64) }
    else if i == i64::MIN { bin("-", E::Neg(b(E::Int(i64::MAX as u64))), E::Int(1)) }
    else { E::Neg(b(E::Int((-i) as u64))) }
}
pub fn real(x: f64) -> E { if x.is_sign_negative() { E::Neg(b(E::Real(-x))) } else { E::Real(x) } }
pub fn text(s: &str) -> E { E::Str(s.to_owned()) }

impl E {
    pub fn children(&self) -> Vec<&E> {
        match self {
            E::Null | E::Int(_) | E::Real(_) | E::Bool(_) | E::Str(_) | E::Col(_) | E::Star => vec![],
            E::Neg(x) | E::Not(x) | E::Extract(_, x) | E::Cast(x, _) => vec![x],
            E::Bin(_, l, r) | E::Is(_, l, r) | E::Index(l, r) => vec![l, r],
            E::In(_, x, vs) => { let mut v = vec![x.as_ref()]; v.extend(vs.iter()); v }
            E::Call(_, a) | E::Agg(_, _, a) | E::ArrayLit(a) => a.iter().collect(),
            E::Case(cs, e) => { let mut v = Vec::new(); for (c, r) in cs { v.push(c); v.push(r); } v.push(e.as_ref()); v }
        }
    }
    pub fn size(&self) -> usize { 1 + self.children().iter().map(|c| c.size()).sum::<usize>() }
    pub fn op_nodes(&self) -> usize {
        let own = match self { E::Null | E::Int(_) | E::Real(_) | E::Bool(_) | E::Str(_) | E::Col(_) | E::Star => 0, _ => 1 };
        own + self.children().iter().map(|c| c.op_nodes()).sum::<usize>()
    }
    pub fn has_agg(&self) -> bool { matches!(self, E::Agg(..)) || self.children().iter().any(|c| c.has_agg()) }

    pub fn to_json(&self) -> J {
        match self {
            E::Null => json!(["null"]),
            E::Int(i) => json!(["int", i.to_string()]),
            E::Real(x) => json!(["real", fmt_real(*x)]),
            E::Bool(x) => json!(["bool", x]),
            E::Str(s) => json!(["str", s]),
            E::Col(c) => json!(["col", c]),
            E::Star => json!(["star"]),
            E::Neg(x) => json!(["neg", x.to_json()]),
            E::Not(x) => json!(["not", x.to_json()]),
            E::Bin(op, l, r) => json!(["bin", op, l.to_json(), r.to_json()]),
            E::Is(n, l, r) => json!(["is", n, l.to_json(), r.to_json()]),
            E::In(n, x, vs) => json!(["in", n, x.to_json(), vs.iter().map(|v| v.to_json()).collect::<Vec<_>>()]),
            E::Call(n, a) => json!(["call", n, a.iter().map(|v| v.to_json()).collect::<Vec<_>>()]),
            E::Agg(n, d, a) => json!(["agg", n, d, a.iter().map(|v| v.to_json()).collect::<Vec<_>>()]),
            E::Extract(p, x) => json!(["extract", p, x.to_json()]),
            E::ArrayLit(a) => json!(["array", a.iter().map(|v| v.to_json()).collect::<Vec<_>>()]),
            E::Index(a, i) => json!(["index", a.to_json(), i.to_json()]),
            E::Cast(x, t) => json!(["cast", x.to_json(), t.sql().to_lowercase()]),
            E::Case(cs, e) => json!(["case", cs.iter().map(|(c, r)| json!([c.to_json(), r.to_json()])).collect::<Vec<_>>(), e.to_json()]),
        }
    }

    pub fn from_json(j: &J) -> Option<E> {
        let a = j.as_array()?;
        let tag = a.first()?.as_str()?;
        let list = |j: &J| -> Option<Vec<E>> { j.as_array()?.iter().map(E::from_json).collect() };
        Some(match tag {
            "null" => E::Null,
            "int" => E::Int(a.get(1)?.as_str()?.parse().ok()?),
            "real" => E::Real(a.get(1)?.as_str()?.parse().ok()?),
            "bool" => E::Bool(a.get(1)?.as_bool()?),
            "str" => E::Str(a.get(1)?.as_str()?.to_owned()),
            "col" => E::Col(a.get(1)?.as_str()?.to_owned()),
            "star" => E::Star,
            "neg" => E::Neg(b(E::from_json(a.get(1)?)?)),
            "not" => E::Not(b(E::from_json(a.get(1)?)?)),
            "bin" => E::Bin(a.get(1)?.as_str()?.to_owned(), b(E::from_json(a.get(2)?)?), b(E::from_json(a.get(3)?)?)),
            "is" => E::Is(a.get(1)?.as_bool()?, b(E::from_json(a.get(2)?)?), b(E::from_json(a.get(3)?)?)),
            "in" => E::In(a.get(1)?.as_bool()?, b(E::from_json(a.get(2)?)?), list(a.get(3)?)?),
            "call" => E::Call(a.get(1)?.as_str()?.to_owned(), list(a.get(2)?)?),
            "agg" => E::Agg(a.get(1)?.as_str()?.to_owned(), a.get(2)?.as_bool()?, list(a.get(3)?)?),
            "extract" => E::Extract(a.get(1)?.as_str()?.to_owned(), b(E::from_json(a.get(2)?)?)),
            "array" => E::ArrayLit(list(a.get(1)?)?),
            "index" => E::Index(b(E::from_json(a.get(1)?)?), b(E::from_json(a.get(2)?)?)),
            "cast" => E::Cast(b(E::from_json(a.get(1)?)?), ty_from_sql(a.get(2)?.as_str()?)?),
            "case" => {
                let mut cs = Vec::new();
                for c in a.get(1)?.as_array()? { let p = c.as_array()?; cs.push((E::from_json(p.first()?)?, E::from_json(p.get(1)?)?)); }
                E::Case(cs, b(E::from_json(a.get(2)?)?))
            }
            _ => return None,
        })
    }
}

pub fn ty_from_sql(s: &str) -> Option<Ty> {
    let l = s.to_lowercase();
    if let Some(stripped) = l.strip_suffix("[]") { return Some(Ty::Arr(Box::new(ty_from_sql(stripped)?))); }
    Some(match l.as_str() { "int" => Ty::Int, "real" => Ty::Real, "text" => Ty::Text, "boolean" => Ty::Bool, "timestamp" => Ty::Ts, "interval" => Ty::Iv, _ => return None })
}

/// decimal rendering of a non-negative finite REAL literal, always with a '.', never an exponent
pub fn fmt_real(x: f64) -> String {
    let s = format!("{}", x);
    if s.contains('e') || s.contains("inf") || s.contains("NaN") { return format!("{:.1}", x); }
    if s.contains('.') { s } else { format!("{}.0", s) }
}

pub fn quote(s: &str) -> String {
    let mut o = String::with_capacity(s.len() + 2);
    o.push('\'');
    for c in s.chars() { if c == '\\' || c == '\'' { o.push('\\'); } o.push(c); }
    o.push('\'');
    o
}

// ---------------------------------------------------------------------------------------------
// tokens

#[derive(Clone, Debug, PartialEq)]
pub enum TK {
    Keyword,   // SELECT FROM WHERE AND OR NOT IS IN CASE ... (case-insensitive)
    Name,      // function / aggregate / type / modifier names and NULL TRUE FALSE (case-insensitive)
    Ident,     // table / column / alias / pattern names (case-sensitive)
    Number,
    Str,
    Op,        // + - * / = != < <= > >= . ::
    Punct,     // ( ) [ ] { } , ; =>
}

#[derive(Clone, Debug, PartialEq)]
pub struct Tok { pub text: String, pub kind: TK }

pub fn tk(text: &str, kind: TK) -> Tok { Tok { text: text.to_owned(), kind } }
fn kw(out: &mut Vec<Tok>, s: &str) { for w in s.split(' ') { out.push(tk(w, TK::Keyword)); } }
fn nm(out: &mut Vec<Tok>, s: &str) { out.push(tk(s, TK::Name)); }
fn id(out: &mut Vec<Tok>, s: &str) {
    let mut first = true;
    for part in s.split('.') { if !first { out.push(tk(".", TK::Op)); } first = false; out.push(tk(part, TK::Ident)); }
}
fn op(out: &mut Vec<Tok>, s: &str) { out.push(tk(s, TK::Op)); }
fn pu(out: &mut Vec<Tok>, s: &str) { out.push(tk(s, TK::Punct)); }

pub fn join_tokens(toks: &[Tok]) -> String { toks.iter().map(|t| t.text.as_str()).collect::<Vec<_>>().join(" ") }

/// binding strength under the reference grammar stated in C13 (higher binds tighter)
pub fn ref_prec(e: &E) -> u8 {
    match e {
        E::Bin(o, _, _) => match o.as_str() {
            "OR" => 1, "AND" => 2,
            "=" | "!=" | "<" | "<=" | ">" | ">=" => 4,
            "+" | "-" => 5, "*" | "/" => 6, _ => 0 },
        E::Not(_) => 3,
        E::Is(..) | E::In(..) => 4,
        E::Neg(_) => 7,
        E::Cast(..) | E::Index(..) => 8,
        _ => 9,
    }
}

#[derive(Clone, Copy, PartialEq)]
pub enum Paren { Full, Minimal }

pub fn expr_tokens(e: &E, mode: Paren, out: &mut Vec<Tok>) { emit(e, mode, 0, false, out); }

/// `min_prec`: the weakest binding strength allowed without parentheses at this position.
/// `strict`: even equal strength needs parentheses (right operand of a left-associative operator).
thread_local! {
    /// when non-zero, redundant parentheses are put around pseudo-randomly chosen sub-expressions (C13: "a
    /// parenthesised sub-expression is always accepted where an operand is")
    pub static EXTRA_PARENS: std::cell::Cell<u64> = std::cell::Cell::new(0);
}

fn extra_paren() -> bool {
    EXTRA_PARENS.with(|c| {
        let v = c.get();
        if v == 0 { return false; }
        let mut x = v;
        let r = crate::rng::splitmix(&mut x);
        c.set(if x == 0 { 1 } else { x });
        r % 4 == 0
    })
}

fn emit(e: &E, mode: Paren, min_prec: u8, strict: bool, out: &mut Vec<Tok>) {
    let p = ref_prec(e);
    let compound = p < 9;
    let mut need = match mode {
        Paren::Full => compound,
        Paren::Minimal => compound && (p < min_prec || (strict && p == min_prec)),
    };
    // `x::int[1]` would read as a cast to an array type: the cast operand of a subscript is always parenthesised
    let array_of_subscript = SUBSCRIPT_OF_CAST.with(|c| c.replace(false));
    if mode == Paren::Minimal && array_of_subscript && matches!(e, E::Cast(..)) { need = true; }
    let extra = !matches!(e, E::Star) && extra_paren();
    if extra { pu(out, "("); }
    if need { pu(out, "("); }
    let sub = |x: &E, mp: u8, st: bool, out: &mut Vec<Tok>| emit(x, mode, mp, st, out);
    match e {
        E::Null => nm(out, "NULL"),
        E::Int(i) => out.push(tk(&i.to_string(), TK::Number)),
        E::Real(x) => out.push(tk(&fmt_real(*x), TK::Number)),
        E::Bool(x) => nm(out, if *x { "TRUE" } else { "FALSE" }),
        E::Str(s) => out.push(tk(&quote(s), TK::Str)),
        E::Col(c) => id(out, c),
        E::Star => op(out, "*"),
        E::Neg(x) => { op(out, "-"); sub(x, 7, false, out); }
        E::Not(x) => { kw(out, "NOT"); sub(x, 3, false, out); }
        E::Bin(o, l, r) => {
            sub(l, p, false, out);
            if o == "AND" || o == "OR" { kw(out, o); } else { op(out, o); }
            sub(r, p, true, out);
        }
        E::Is(n, l, r) => { sub(l, p, false, out); kw(out, if *n { "IS NOT" } else { "IS" }); sub(r, p, true, out); }
        E::In(n, x, vs) => {
            sub(x, p, false, out);
            kw(out, if *n { "NOT IN" } else { "IN" });
            pu(out, "(");
            for (i, v) in vs.iter().enumerate() { if i > 0 { pu(out, ","); } sub(v, 0, false, out); }
            pu(out, ")");
        }
        E::Call(n, a) | E::Agg(n, false, a) => {
            nm(out, n); pu(out, "(");
            for (i, v) in a.iter().enumerate() { if i > 0 { pu(out, ","); } sub(v, 0, false, out); }
            pu(out, ")");
        }
        E::Agg(n, true, a) => {
            nm(out, n); pu(out, "("); kw(out, "DISTINCT");
            for (i, v) in a.iter().enumerate() { if i > 0 { pu(out, ","); } sub(v, 0, false, out); }
            pu(out, ")");
        }
        E::Extract(part, x) => { kw(out, "EXTRACT"); pu(out, "("); nm(out, part); kw(out, "FROM"); sub(x, 0, false, out); pu(out, ")"); }
        E::ArrayLit(a) => {
            nm(out, "array"); pu(out, "[");
            for (i, v) in a.iter().enumerate() { if i > 0 { pu(out, ","); } sub(v, 0, false, out); }
            pu(out, "]");
        }
        E::Index(a, i) => {
            SUBSCRIPT_OF_CAST.with(|c| c.set(true));
            sub(a, 8, false, out);
            pu(out, "["); sub(i, 0, false, out); pu(out, "]");
        }
        E::Cast(x, t) => { sub(x, 8, false, out); op(out, "::"); type_tokens(t, out); }
        E::Case(cs, el) => {
            kw(out, "CASE");
            for (c, r) in cs { kw(out, "WHEN"); sub(c, 0, false, out); kw(out, "THEN"); sub(r, 0, false, out); }
            kw(out, "ELSE"); sub(el, 0, false, out); kw(out, "END");
        }
    }
    if need { pu(out, ")"); }
    if extra { pu(out, ")"); }
}

thread_local! { static SUBSCRIPT_OF_CAST: std::cell::Cell<bool> = std::cell::Cell::new(false); }

pub fn type_tokens(t: &Ty, out: &mut Vec<Tok>) {
    match t {
        Ty::Arr(e) => { type_tokens(e, out); pu(out, "["); pu(out, "]"); }
        other => nm(out, &other.sql().to_lowercase()),
    }
}

pub fn render(e: &E, mode: Paren) -> String { let mut t = Vec::new(); expr_tokens(e, mode, &mut t); join_tokens(&t) }

// ---------------------------------------------------------------------------------------------
// statements

#[derive(Clone, Debug, PartialEq)]
pub struct Join { pub outer: bool, pub table: String, pub file: String, pub left: (String, String), pub right: (String, String) }

#[derive(Clone, Debug, PartialEq, Default)]
pub struct Sel {
    pub distinct: bool,
    pub projs: Vec<(E, Option<String>)>,
    pub from: String,
    pub from_file: Option<String>,
    pub join: Option<Join>,
    pub filter: Option<E>,
    pub group_by: Option<Vec<E>>,
    pub having: Option<E>,
    pub limit: Option<u64>,
    /// rendering order of the present clauses: any permutation of "join where group having limit"
    pub order: Vec<String>,
    pub semicolon: bool,
}

impl Sel {
    pub fn is_aggregate(&self) -> bool { self.group_by.is_some() || self.projs.iter().any(|(e, _)| e.has_agg()) }

    pub fn clause_tokens(&self, which: &str, mode: Paren, out: &mut Vec<Tok>) {
        match which {
            "join" => if let Some(j) = &self.join {
                kw(out, if j.outer { "OUTER JOIN" } else { "INNER JOIN" });
                id(out, &j.table); op(out, "::"); out.push(tk(&quote(&j.file), TK::Str));
                kw(out, "ON");
                id(out, &format!("{}.{}", j.left.0, j.left.1)); op(out, "="); id(out, &format!("{}.{}", j.right.0, j.right.1));
            },
            "where" => if let Some(f) = &self.filter { kw(out, "WHERE"); expr_tokens(f, mode, out); },
            "group" => if let Some(g) = &self.group_by {
                kw(out, "GROUP BY");
                for (i, k) in g.iter().enumerate() { if i > 0 { pu(out, ","); } expr_tokens(k, mode, out); }
            },
            "having" => if let Some(h) = &self.having { kw(out, "HAVING"); expr_tokens(h, mode, out); },
            "limit" => if let Some(n) = self.limit { kw(out, "LIMIT"); out.push(tk(&n.to_string(), TK::Number)); },
            _ => {}
        }
    }

    pub fn tokens(&self, mode: Paren) -> Vec<Tok> {
        let mut out = Vec::new();
        kw(&mut out, "SELECT");
        if self.distinct { kw(&mut out, "DISTINCT"); }
        for (i, (e, alias)) in self.projs.iter().enumerate() {
            if i > 0 { pu(&mut out, ","); }
            expr_tokens(e, mode, &mut out);
            if let Some(a) = alias { kw(&mut out, "AS"); id(&mut out, a); }
        }
        kw(&mut out, "FROM");
        id(&mut out, &self.from);
        if let Some(f) = &self.from_file { op(&mut out, "::"); out.push(tk(&quote(f), TK::Str)); }
        let default_order = ["join", "where", "group", "having", "limit"];
        let order: Vec<String> = if self.order.is_empty() { default_order.iter().map(|s| s.to_string()).collect() } else {
            let mut o = self.order.clone();
            for d in default_order { if !o.iter().any(|x| x == d) { o.push(d.to_string()); } }
            o
        };
        for c in &order { self.clause_tokens(c, mode, &mut out); }
        if self.semicolon { pu(&mut out, ";"); }
        out
    }

    pub fn text(&self, mode: Paren) -> String { join_tokens(&self.tokens(mode)) }

    pub fn to_json(&self) -> J {
        json!({
            "distinct": self.distinct,
            "projs": self.projs.iter().map(|(e, a)| json!([e.to_json(), a])).collect::<Vec<_>>(),
            "from": self.from, "from_file": self.from_file,
            "join": self.join.as_ref().map(|j| json!({"outer": j.outer, "table": j.table, "file": j.file, "left": [j.left.0, j.left.1], "right": [j.right.0, j.right.1]})),
            "filter": self.filter.as_ref().map(|e| e.to_json()),
            "group_by": self.group_by.as_ref().map(|g| g.iter().map(|e| e.to_json()).collect::<Vec<_>>()),
            "having": self.having.as_ref().map(|e| e.to_json()),
            "limit": self.limit, "order": self.order, "semicolon": self.semicolon,
        })
    }

    pub fn from_json(j: &J) -> Option<Sel> {
        let opt_e = |k: &str| -> Option<Option<E>> { match j.get(k) { None | Some(J::Null) => Some(None), Some(v) => Some(Some(E::from_json(v)?)) } };
        let mut projs = Vec::new();
        for p in j.get("projs")?.as_array()? {
            let a = p.as_array()?;
            projs.push((E::from_json(a.first()?)?, a.get(1).and_then(|x| x.as_str()).map(|s| s.to_owned())));
        }
        let join = match j.get("join") {
            None | Some(J::Null) => None,
            Some(v) => {
                let pair = |k: &str| -> Option<(String, String)> { let a = v.get(k)?.as_array()?; Some((a.first()?.as_str()?.to_owned(), a.get(1)?.as_str()?.to_owned())) };
                Some(Join { outer: v.get("outer")?.as_bool()?, table: v.get("table")?.as_str()?.to_owned(), file: v.get("file")?.as_str()?.to_owned(), left: pair("left")?, right: pair("right")? })
            }
        };
        let group_by = match j.get("group_by") { None | Some(J::Null) => None, Some(v) => Some(v.as_array()?.iter().map(E::from_json).collect::<Option<Vec<_>>>()?) };
        Some(Sel {
            distinct: j.get("distinct").and_then(|x| x.as_bool()).unwrap_or(false),
            projs,
            from: j.get("from")?.as_str()?.to_owned(),
            from_file: j.get("from_file").and_then(|x| x.as_str()).map(|s| s.to_owned()),
            join,
            filter: opt_e("filter")?,
            group_by,
            having: opt_e("having")?,
            limit: j.get("limit").and_then(|x| x.as_u64()),
            order: j.get("order").and_then(|x| x.as_array()).map(|a| a.iter().filter_map(|s| s.as_str().map(|s| s.to_owned())).collect()).unwrap_or_default(),
            semicolon: j.get("semicolon").and_then(|x| x.as_bool()).unwrap_or(false),
        })
    }
}

// ---------------------------------------------------------------------------------------------
// table definitions

#[derive(Clone, Debug, PartialEq)]
pub enum JsonStep { Field(String), Index(u64) }

#[derive(Clone, Debug, PartialEq)]
pub enum Src {
    Group(String, u64),
    Multi(Vec<(String, u64)>),
    Inline(String),
    Json(Vec<JsonStep>),
}

#[derive(Clone, Debug, PartialEq)]
pub enum Modifier { None, NotNull, Trim, Convert, Microseconds, Default(E),
    /// several modifiers on one column: the CREATE TABLE grammar takes one per column, so only the first is written into the
    /// SQL text and the others are applied through the library API (`ColumnDefinition.options`) after the table is parsed
    Combo(Vec<Modifier>) }

impl Modifier {
    pub fn parts(&self) -> Vec<&Modifier> { match self { Modifier::Combo(v) => v.iter().flat_map(|m| m.parts()).collect(), Modifier::None => vec![], m => vec![m] } }
}

impl ColSpec {
    pub fn not_null(&self) -> bool { self.modifier.parts().iter().any(|m| **m == Modifier::NotNull) }
    pub fn trim(&self) -> bool { self.modifier.parts().iter().any(|m| **m == Modifier::Trim) }
    pub fn convert(&self) -> bool { self.modifier.parts().iter().any(|m| **m == Modifier::Convert) }
    pub fn micro(&self) -> bool { self.modifier.parts().iter().any(|m| **m == Modifier::Microseconds) }
    pub fn default_expr(&self) -> Option<&E> { self.modifier.parts().into_iter().find_map(|m| if let Modifier::Default(e) = m { Some(e) } else { None }) }
    pub fn api_only_parts(&self) -> Vec<&Modifier> { match &self.modifier { Modifier::Combo(_) => self.modifier.parts().into_iter().skip(1).collect(), _ => vec![] } }
}

#[derive(Clone, Debug, PartialEq)]
pub struct ColSpec { pub name: String, pub ty: Ty, pub src: Src, pub modifier: Modifier }

#[derive(Clone, Debug, PartialEq)]
pub struct PatSpec { pub name: String, pub regex: String, pub split: bool }

#[derive(Clone, Debug, PartialEq)]
pub struct TableSpec { pub name: String, pub patterns: Vec<PatSpec>, pub cols: Vec<ColSpec> }

fn modifier_to_json(m: &Modifier) -> J {
    match m {
        Modifier::None => json!(null), Modifier::NotNull => json!("notnull"), Modifier::Trim => json!("trim"), Modifier::Convert => json!("convert"),
        Modifier::Microseconds => json!("microseconds"), Modifier::Default(e) => json!({"default": e.to_json()}),
        Modifier::Combo(v) => json!({"combo": v.iter().map(modifier_to_json).collect::<Vec<_>>()}),
    }
}

fn modifier_from_json(m: &J) -> Option<Modifier> {
    Some(if m.is_null() { Modifier::None } else if let Some(s) = m.as_str() {
        match s { "notnull" => Modifier::NotNull, "trim" => Modifier::Trim, "convert" => Modifier::Convert, "microseconds" => Modifier::Microseconds, _ => return None }
    } else if let Some(c) = m.get("combo") { Modifier::Combo(c.as_array()?.iter().map(modifier_from_json).collect::<Option<Vec<_>>>()?) }
    else { Modifier::Default(E::from_json(m.get("default")?)?) })
}

impl TableSpec {
    pub fn tokens(&self) -> Vec<Tok> {
        let mut out = Vec::new();
        kw(&mut out, "CREATE TABLE");
        id(&mut out, &self.name);
        pu(&mut out, "(");
        let mut first = true;
        for p in &self.patterns {
            if !first { pu(&mut out, ","); } first = false;
            id(&mut out, &p.name); op(&mut out, "=");
            if p.split { out.push(tk("split", TK::Name)); }
            // the explicit spelling of the default mode, for every third pattern (decided by the pattern text: rendering is a function of the spec)
            else if crate::rng::fnv1a(p.regex.as_bytes()) % 3 == 0 { out.push(tk("match", TK::Name)); }
            out.push(tk(&quote(&p.regex), TK::Str));
        }
        for c in &self.cols {
            if !first { pu(&mut out, ","); } first = false;
            match &c.src {
                Src::Group(p, i) => { id(&mut out, p); pu(&mut out, "["); out.push(tk(&i.to_string(), TK::Number)); pu(&mut out, "]"); }
                Src::Multi(gs) => {
                    for (k, (p, i)) in gs.iter().enumerate() {
                        if k > 0 { pu(&mut out, ","); }
                        id(&mut out, p); pu(&mut out, "["); out.push(tk(&i.to_string(), TK::Number)); pu(&mut out, "]");
                    }
                }
                Src::Inline(r) => out.push(tk(&quote(r), TK::Str)),
                Src::Json(steps) => {
                    pu(&mut out, "{");
                    for s in steps {
                        match s {
                            JsonStep::Field(f) => { op(&mut out, "."); out.push(tk(f, TK::Ident)); }
                            JsonStep::Index(i) => { pu(&mut out, "["); out.push(tk(&i.to_string(), TK::Number)); pu(&mut out, "]"); }
                        }
                    }
                    pu(&mut out, "}");
                }
            }
            pu(&mut out, "=>");
            id(&mut out, &c.name);
            type_tokens_upper(&c.ty, &mut out);
            match c.modifier.parts().first().copied().unwrap_or(&Modifier::None) {
                Modifier::None | Modifier::Combo(_) => {}
                Modifier::NotNull => { kw(&mut out, "NOT"); nm(&mut out, "NULL"); }
                Modifier::Trim => nm(&mut out, "TRIM"),
                Modifier::Convert => nm(&mut out, "CONVERT"),
                Modifier::Microseconds => nm(&mut out, "MICROSECONDS"),
                Modifier::Default(e) => { kw(&mut out, "DEFAULT"); expr_tokens(e, Paren::Full, &mut out); }
            }
        }
        pu(&mut out, ")");
        pu(&mut out, ";");
        out
    }
    pub fn text(&self) -> String { join_tokens(&self.tokens()) }
}

fn type_tokens_upper(t: &Ty, out: &mut Vec<Tok>) {
    match t {
        Ty::Arr(e) => { type_tokens_upper(e, out); pu(out, "["); pu(out, "]"); }
        other => nm(out, &other.sql()),
    }
}

// ---------------------------------------------------------------------------------------------
// TableSpec <-> JSON (so that extraction cases can be stored and replayed with their intended structure)

impl TableSpec {
    pub fn to_json(&self) -> J {
        json!({
            "name": self.name,
            "patterns": self.patterns.iter().map(|p| json!({"name": p.name, "regex": p.regex, "split": p.split})).collect::<Vec<_>>(),
            "cols": self.cols.iter().map(|c| json!({
                "name": c.name, "ty": c.ty.sql().to_lowercase(),
                "src": match &c.src {
                    Src::Group(p, i) => json!(["group", p, i]),
                    Src::Multi(gs) => json!(["multi", gs.iter().map(|(p, i)| json!([p, i])).collect::<Vec<_>>()]),
                    Src::Inline(r) => json!(["inline", r]),
                    Src::Json(steps) => json!(["json", steps.iter().map(|s| match s { JsonStep::Field(f) => json!(f), JsonStep::Index(i) => json!(i) }).collect::<Vec<_>>()]),
                },
                "modifier": modifier_to_json(&c.modifier),
            })).collect::<Vec<_>>(),
        })
    }

    pub fn from_json(j: &J) -> Option<TableSpec> {
        let mut patterns = Vec::new();
        for p in j.get("patterns")?.as_array()? { patterns.push(PatSpec { name: p.get("name")?.as_str()?.to_owned(), regex: p.get("regex")?.as_str()?.to_owned(), split: p.get("split")?.as_bool()? }); }
        let mut cols = Vec::new();
        for c in j.get("cols")?.as_array()? {
            let s = c.get("src")?.as_array()?;
            let src = match s.first()?.as_str()? {
                "group" => Src::Group(s.get(1)?.as_str()?.to_owned(), s.get(2)?.as_u64()?),
                "multi" => Src::Multi(s.get(1)?.as_array()?.iter().map(|g| { let a = g.as_array()?; Some((a.first()?.as_str()?.to_owned(), a.get(1)?.as_u64()?)) }).collect::<Option<Vec<_>>>()?),
                "inline" => Src::Inline(s.get(1)?.as_str()?.to_owned()),
                "json" => Src::Json(s.get(1)?.as_array()?.iter().map(|x| if let Some(f) = x.as_str() { Some(JsonStep::Field(f.to_owned())) } else { x.as_u64().map(JsonStep::Index) }).collect::<Option<Vec<_>>>()?),
                _ => return None,
            };
            let modifier = modifier_from_json(c.get("modifier")?)?;
            cols.push(ColSpec { name: c.get("name")?.as_str()?.to_owned(), ty: ty_from_sql(c.get("ty")?.as_str()?)?, src, modifier });
        }
        Some(TableSpec { name: j.get("name")?.as_str()?.to_owned(), patterns, cols })
    }
}
