//! C01 — regex/split extraction yields exactly the captured, typed column values.

use std::collections::HashMap;

use serde_json::{json, Value as J};

use crate::ast::*;
use crate::eng;
use crate::refx::*;
use crate::rng::Rng;
use crate::runner::*;
use crate::val::*;

pub struct C01;

#[derive(Clone, Copy, PartialEq, Debug)]
pub enum Intent { Int, Real, Word, Any, Year, Month, Day, Hour, Minute, Second, Frac }

pub struct GroupT { regex: &'static str, key: String, optional: bool, intent: Intent }
pub struct PatT { name: String, prefix: String, sep: String, groups: Vec<GroupT>, split: Option<&'static str> }

const INT_TEXTS: &[&str] = &["0", "-1", "42", "+7", "007", "9223372036854775807", "9223372036854775808", "-9223372036854775808", "-9223372036854775809", "4294967297", "", "12a", "1.0", " 5", "1e3", "-0"];
const REAL_TEXTS: &[&str] = &["1.5", "-0.0", "1e5", "inf", "-inf", "NaN", ".5", "1.", "1e400", "--1", "2", "+3.25", "1e-400", "1.2.3", "infinity", "0x10", "1_0", "e5", "",
    // plain decimals of 16-25 digits: each must come out as the correctly rounded double (folding the digits into an integer and
    // dividing by a power of ten rounds twice and is one step off for these)
    "156226912729.756367", "980134110.5616701", "3912472292621.9308", "345956.625465809932", "7857696820473812.4", "9926359.151072815", "76397103211.5259197",
    "0.1000000000000000055511151231257827", "9007199254740993.0", "123456789012345678901234.5", "0.30000000000000004", "2.675", "8.41e21", "+980134110.5616701", "-3912472292621.9308"];
const WORD_TEXTS: &[&str] = &["a", "abc", "Zed", "x", "true", "false", "NULL", "\u{e5}ngstr\u{f6}m", "Jan"];
const ANY_TEXTS: &[&str] = &["", " ", "  padded  ", "\tx\t", "plain text", "a\rb", "\r7", "cr at end\r", "x\u{85}y", "x\u{2028}y", "form\u{c}feed", "v\u{b}t", "\u{a0}nbsp\u{a0}", "42", "1:02:03", "2021-03-04 05:06:07", "2021-3-4 5:6:7", " 2021-03-04 05:06:07", "2021-13-04 05:06:07", "2021-02-30 00:00:00", "2021-03-04 24:00:00", "2021-03-04 05:06:60", "100:00:00", "1:2", "a:b:c", "-1:00:00", "2562047788016:00:00", "9223372036854775807:0:0", "0:9223372036854775807:0", "0:307445734561825861:0", "1:153722867280912931:5", "0:0:9223372036854775807", "true", "\u{1F600}", "\u{feff}bom", "\u{feff}"];
const YEARS: &[&str] = &["2021", "1970", "0", "-1", "99999", "4294969317", "9999", "262143", "300000", "x"];
const MONTHS_T: &[&str] = &["1", "12", "13", "0", "Jan", "sept", "June", "JUL", "foo", "4294967297", "-1", "02",
    // every month name the engine knows, in some letter case
    "jan", "Feb", "MAR", "apr", "May", "jun", "Jul", "AUG", "sep", "Oct", "nov", "DEC", "july", "SEPT", "june", "octo", "mai"];
const DAYS: &[&str] = &["1", "31", "0", "32", "29", "30", "4294967297", "07"];
const HOURS: &[&str] = &["0", "23", "24", "4294967296", "7"];
const MINUTES: &[&str] = &["0", "59", "60", "4294967296", "30"];
const SECONDS: &[&str] = &["0", "59", "60", "61", "4294967296", "5"];
const FRACS: &[&str] = &["0", "999", "1000", "999999", "1000000", "1234567", "4294968", "4294967", "4294967296", "5"];

fn pool(i: Intent) -> &'static [&'static str] {
    match i { Intent::Int => INT_TEXTS, Intent::Real => REAL_TEXTS, Intent::Word => WORD_TEXTS, Intent::Any => ANY_TEXTS, Intent::Year => YEARS, Intent::Month => MONTHS_T, Intent::Day => DAYS, Intent::Hour => HOURS, Intent::Minute => MINUTES, Intent::Second => SECONDS, Intent::Frac => FRACS }
}

fn group_regex(rng: &mut Rng, i: Intent) -> &'static str {
    match i {
        Intent::Int => *rng.pick(&["(-?[0-9]+)", "([+-]?[0-9]+)", "([0-9]*)", "([-+0-9a-z.]*)"]),
        Intent::Real => *rng.pick(&["([-+.0-9eE]+)", "([-+a-zA-Z0-9._]*)"]),
        Intent::Word => *rng.pick(&["([a-zA-Z]+)", "(\\w+)", "(\\p{L}*)"]),
        Intent::Any => *rng.pick(&["([^;|#]*)", "(.*?)", "(\\s*[^;|#]*?\\s*)", "([^;|#]+)"]),
        Intent::Month => *rng.pick(&["(-?[0-9]+|[A-Za-z]+)", "([A-Za-z0-9-]+)"]),
        _ => *rng.pick(&["(-?[0-9]+)", "([0-9]+)", "([0-9a-z-]*)"]),
    }
}

fn regex_escape(s: &str) -> String { regex::escape(s) }

fn pattern_regex(p: &PatT) -> String {
    if let Some(s) = p.split { return s.to_owned(); }
    let mut re = regex_escape(&p.prefix);
    for (i, g) in p.groups.iter().enumerate() {
        let sep = if i == 0 { String::new() } else { regex_escape(&p.sep) };
        let body = format!("{}{}{}", sep, regex_escape(&g.key), g.regex);
        if g.optional { re.push_str(&format!("(?:{})?", body)); } else { re.push_str(&body); }
    }
    re
}

fn pattern_instance(rng: &mut Rng, p: &PatT) -> String {
    if let Some(s) = p.split {
        let n = rng.below(6);
        let seps: &[&str] = match s { "[;,]" => &[";", ","], "\\s+" => &[" ", "  ", "\t"], "\\|" => &["|"], _ => &[", ", ","] };
        let mut out = String::new();
        for i in 0..n { if i > 0 { out.push_str(*rng.pick(seps)); } let it = *rng.pick(&[Intent::Int, Intent::Real, Intent::Word, Intent::Any]); out.push_str(*rng.pick(pool(it))); }
        return out;
    }
    let mut out = p.prefix.clone();
    for (i, g) in p.groups.iter().enumerate() {
        if g.optional && rng.chance(1, 3) { continue; }
        if i > 0 { out.push_str(&p.sep); }
        out.push_str(&g.key);
        out.push_str(*rng.pick(pool(g.intent)));
    }
    out
}

pub fn gen_table(rng: &mut Rng) -> (TableSpec, Vec<PatT>) {
    let npat = 1 + rng.below(3);
    let mut pats = Vec::new();
    for pi in 0..npat {
        let name = format!("p{}", pi);
        if rng.chance(1, 5) {
            pats.push(PatT { name, prefix: String::new(), sep: String::new(), groups: vec![], split: Some(*rng.pick(&["[;,]", "\\s+", "\\|", ", ?"])) });
            continue;
        }
        let date_like = rng.chance(1, 3);
        let ng = if date_like { 7 } else { 1 + rng.below(5) };
        let mut groups = Vec::new();
        for gi in 0..ng {
            let intent = if date_like { [Intent::Year, Intent::Month, Intent::Day, Intent::Hour, Intent::Minute, Intent::Second, Intent::Frac][gi] } else { *rng.pick(&[Intent::Int, Intent::Int, Intent::Real, Intent::Word, Intent::Any, Intent::Any]) };
            groups.push(GroupT { regex: group_regex(rng, intent), key: if rng.chance(1, 2) { format!("{}=", (b'a' + gi as u8) as char) } else { String::new() }, optional: gi > 0 && rng.chance(1, 3), intent });
        }
        pats.push(PatT { name, prefix: format!("{}:", rng.pick(&["ev", "P", "log", "x"])), sep: rng.pick(&[" ", ";", "|", ","]).to_string(), groups, split: None });
    }
    // sometimes two patterns share a name (two alternative shapes of the same record)
    if pats.len() >= 2 && rng.chance(1, 10) { let n0 = pats[0].name.clone(); let last = pats.len() - 1; pats[last].name = n0; }
    let mut spec = TableSpec { name: "t".into(), patterns: pats.iter().map(|p| PatSpec { name: p.name.clone(), regex: pattern_regex(p), split: p.split.is_some() }).collect(), cols: vec![] };
    let ncols = 1 + rng.below(7);
    for ci in 0..ncols {
        let p = &pats[rng.below(pats.len())];
        let ng = if p.split.is_some() { 5 } else { p.groups.len() as u64 };
        let gidx = |rng: &mut Rng| rng.below(ng as usize + 2) as u64;
        // the groups of an array / timestamp column may come from different patterns of the table
        let mixed = pats.len() >= 2 && rng.chance(1, 3);
        let any_ref = |rng: &mut Rng| -> (String, u64) {
            if !mixed { return (p.name.clone(), gidx(rng)); }
            let q = &pats[rng.below(pats.len())];
            let nq = if q.split.is_some() { 5 } else { q.groups.len() };
            (q.name.clone(), rng.below(nq + 2) as u64)
        };
        let shape = rng.below(10);
        let (ty, src) = if shape == 0 {
            (rng.pick(&[Ty::Int, Ty::Text, Ty::Real]).clone(), Src::Inline(rng.pick(&["id=([0-9]+)", "\\[(\\w+)\\]", "v=(-?[0-9.]+)"]).to_string()))
        } else if shape <= 2 {
            let n = 2 + rng.below(3);
            let elem = match rng.below(4) { 0 => Ty::Int, 1 => Ty::Real, 2 => Ty::Text, _ => Ty::Bool };
            (Ty::Arr(Box::new(elem)), Src::Multi((0..n).map(|_| any_ref(rng)).collect()))
        } else if shape == 3 || (shape == 4 && p.groups.len() == 7) {
            // timestamp from parts: usually the groups in order, sometimes fewer / shuffled
            let n = 2 + rng.below(7);
            let refs: Vec<(String, u64)> = if p.groups.len() == 7 && rng.chance(3, 4) { (1..=n.min(7) as u64).map(|i| (p.name.clone(), i)).collect() } else { (0..n).map(|_| any_ref(rng)).collect() };
            (Ty::Ts, Src::Multi(refs))
        } else {
            let ty = match rng.below(8) { 0 | 1 => Ty::Int, 2 => Ty::Real, 3 | 4 => Ty::Text, 5 => Ty::Bool, 6 => Ty::Ts, _ => Ty::Iv };
            let ty = if rng.chance(1, 25) { Ty::Arr(Box::new(ty)) } else { ty };
            (ty, Src::Group(p.name.clone(), gidx(rng)))
        };
        let modifier = match rng.below(10) {
            0 | 1 => Modifier::NotNull,
            2 if ty == Ty::Text => Modifier::Trim,
            3 => Modifier::Convert,
            4 => Modifier::Microseconds,
            5 | 6 => match &ty { Ty::Int => Modifier::Default(E::Int(*rng.pick(&[0u64, 7, 100]))), Ty::Real => Modifier::Default(E::Real(2.5)), Ty::Text => Modifier::Default(E::Str(rng.pick(&["", "dflt"]).to_string())), Ty::Bool => Modifier::Default(E::Bool(true)), _ => Modifier::Default(E::Null) },
            _ => Modifier::None,
        };
        // one column in six: several modifiers at once (the first through the SQL text, the others through the library API)
        let modifier = if rng.chance(1, 6) {
            let mut parts: Vec<Modifier> = if modifier == Modifier::None { vec![] } else { vec![modifier] };
            let mut extra: Vec<Modifier> = vec![Modifier::NotNull, Modifier::Convert, Modifier::Microseconds];
            if ty == Ty::Text { extra.push(Modifier::Trim); extra.push(Modifier::Trim); extra.push(Modifier::Default(E::Str(rng.pick(&["", " padded ", "dflt"]).to_string()))); }
            if ty == Ty::Int { extra.push(Modifier::Default(E::Int(5))); }
            if ty == Ty::Bool { extra.push(Modifier::Default(E::Bool(false))); }
            for _ in 0..(1 + rng.below(2)) { let m = rng.pick(&extra).clone(); if !parts.iter().any(|p| std::mem::discriminant(p) == std::mem::discriminant(&m)) { parts.push(m); } }
            if parts.len() >= 2 { Modifier::Combo(parts) } else { parts.pop().unwrap_or(Modifier::None) }
        } else { modifier };
        spec.cols.push(ColSpec { name: format!("c{}", ci), ty, src, modifier });
    }
    (spec, pats)
}

pub fn gen_line(rng: &mut Rng, pats: &[PatT]) -> String {
    match rng.below(12) {
        0 => return String::new(),
        1 => { let n = rng.below(30); return (0..n).map(|_| *rng.pick(&['a', ':', ';', ' ', '1', '=', '-', '\u{e5}', '|', ','])).collect(); }
        _ => {}
    }
    let mut parts: Vec<String> = Vec::new();
    for p in pats { if rng.chance(4, 5) { parts.push(pattern_instance(rng, p)); if rng.chance(1, 6) { parts.push(pattern_instance(rng, p)); } } }
    rng.shuffle(&mut parts);
    let mut line = parts.join(*rng.pick(&[" # ", "  ", " "]));
    if rng.chance(1, 8) && !line.is_empty() {
        // near miss: one mutation
        let chars: Vec<char> = line.chars().collect();
        let at = rng.below(chars.len());
        let mut c2 = chars.clone();
        match rng.below(3) { 0 => { c2.remove(at); } 1 => { c2.insert(at, *rng.pick(&['x', ' ', ':', '9'])); } _ => { c2[at] = *rng.pick(&['X', '_', '0']); } }
        line = c2.into_iter().collect();
    }
    // a byte-order mark in front of the line (concatenated files): a character of the line like any other
    if rng.chance(1, 10) { line = format!("\u{feff}{}", line); }
    line
}

pub fn sig_column(col: &ColSpec, situation: &str, kind: &str) -> String {
    let parsing = match &col.src { Src::Group(..) => "group", Src::Multi(_) => "multi", Src::Inline(_) => "inline", Src::Json(_) => "json" };
    let m: String = col.modifier.parts().iter().map(|m| match m { Modifier::NotNull => "+notnull", Modifier::Trim => "+trim", Modifier::Convert => "+convert", Modifier::Microseconds => "+micro", Modifier::Default(_) => "+default", _ => "" }).collect();
    format!("extract|{} {}{}|{}|{}", parsing, col.ty.tag(), m, situation, kind)
}

/// judges the engine's row for one line against per-column accept sets
pub fn judge_row(spec: &TableSpec, accepts: &[Accept], observed: &Result<Option<Vec<RV>>, eng::EngErr>, line: &str) -> Vec<Violation> {
    let mut vs = Vec::new();
    match observed {
        Err(e) => {
            let sig = match e { eng::EngErr::Panic(p) => format!("extract|{}", p.sig()), eng::EngErr::Err(_) => "extract|unexpected-error".to_owned() };
            vs.push(Violation::new(sig, format!("line {:?}: {}", line, e.show())));
        }
        Ok(Some(row)) => {
            if row.len() != spec.cols.len() { vs.push(Violation::new("extract|column-count", format!("line {:?}: {} values for {} columns", line, row.len(), spec.cols.len()))); return vs; }
            for (ci, (col, acc)) in spec.cols.iter().zip(accepts.iter()).enumerate() {
                if !acc.admits(&row[ci]) {
                    let kind = if row[ci].is_null() { "value-lost" } else if acc.vals.iter().all(|v| v.is_null()) { "value-for-no-value" } else { "value-differs" };
                    vs.push(Violation::new(sig_column(col, acc.situation, kind), format!("line {:?} column {} ({}): got {}, accepted {}", line, col.name, col.ty.sql(), row[ci].show(), acc.show())));
                }
                if col.not_null() && row[ci].is_null() { vs.push(Violation::new(sig_column(col, acc.situation, "notnull-row-kept"), format!("line {:?}: NOT NULL column {} is NULL but the row was kept", line, col.name))); }
            }
        }
        Ok(None) => {
            let all_may_be_null = accepts.iter().all(|a| a.may_be_null());
            let notnull_may_fail = spec.cols.iter().zip(accepts.iter()).any(|(c, a)| c.not_null() && a.may_be_null());
            if !all_may_be_null && !notnull_may_fail {
                let witness = spec.cols.iter().zip(accepts.iter()).find(|(_, a)| !a.may_be_null()).unwrap();
                vs.push(Violation::new(sig_column(witness.0, witness.1.situation, "row-missing"), format!("line {:?}: no row, but column {} must be {}", line, witness.0.name, witness.1.show())));
            }
        }
    }
    vs
}

/// the engine's `SELECT *` row for each line (engine boundary), one engine per line so that an error on one line does not hide the rest
pub fn observe_rows(tables_text: &str, lines: &[String]) -> Result<Vec<Result<Option<Vec<RV>>, eng::EngErr>>, eng::EngErr> {
    let tables = eng::tables_from(tables_text)?;
    observe_rows_in(&tables, lines)
}

/// ... with modifiers that only the library API can set (`Modifier::Combo`) applied
pub fn observe_rows_spec(spec: &TableSpec, lines: &[String]) -> Result<Vec<Result<Option<Vec<RV>>, eng::EngErr>>, eng::EngErr> {
    let tables = eng::tables_from_specs(&[spec])?;
    observe_rows_in(&tables, lines)
}

fn observe_rows_in(tables: &sqlgrep::data_model::Tables, lines: &[String]) -> Result<Vec<Result<Option<Vec<RV>>, eng::EngErr>>, eng::EngErr> {
    let stmt = eng::parse("SELECT * FROM t")?;
    Ok(lines.iter().map(|l| {
        let (outs, err) = eng::exec_lines(tables, &stmt, std::slice::from_ref(l), true, true);
        match err { Some(e) => Err(e), None => Ok(outs.into_iter().next().and_then(|o| o.out).and_then(|r| r.rows.into_iter().next())) }
    }).collect())
}

impl Monitor for C01 {
    fn id(&self) -> &'static str { "C01" }
    fn rule(&self) -> &'static str {
        "case = generated CREATE TABLE (1-3 capture/split patterns from a template grammar with optional groups, 1-7 columns: single group, inline pattern, multi-group arrays and timestamps, every type, one modifier - or several through the library API) + 8 lines built constructively from type-aware pools (64-bit extremes, float spellings, month names, out-of-range date parts, padded text), duplicated instances (leftmost match), near misses and noise. Engine rows of SELECT * are compared column by column with the reference extraction (accept sets). Non-trivial = some pattern matched the line and a column's expectation came from a branch other than 'pattern unmatched'; distinct by (table, line) hash"
    }
    fn assumptions(&self) -> Vec<String> { vec!["the regex crate decides which text a group captured (the model calls Regex::captures / find_iter itself)".into(), "std's f64 parser gives the numeric value of a text the model's own grammar accepted".into(), "TZ=UTC".into()] }
    fn sizes(&self, tier: Tier) -> Sizes { match tier { Tier::Quick => Sizes { cases: 24_000, min_nontrivial: 20_000 }, Tier::Thorough => Sizes { cases: 1_000_000, min_nontrivial: 500_000 } } }

    fn generate(&self, rng: &mut Rng, _tier: Tier) -> J {
        let (spec, pats) = gen_table(rng);
        let lines: Vec<String> = (0..8).map(|_| gen_line(rng, &pats)).collect();
        json!({"spec": spec.to_json(), "table": spec.text(), "lines": lines})
    }

    fn check(&self, case: &J, obs: &mut Obs) -> Verdict {
        let Some(spec) = TableSpec::from_json(&case["spec"]) else { return Verdict::Inconclusive("malformed-case".into()) };
        let lines: Vec<String> = case["lines"].as_array().map(|a| a.iter().filter_map(|x| x.as_str().map(|s| s.to_owned())).collect()).unwrap_or_default();
        let text = case["table"].as_str().unwrap_or("");
        let observed = match observe_rows_spec(&spec, &lines) {
            Ok(o) => o,
            Err(eng::EngErr::Panic(p)) => return Verdict::Violated(vec![Violation::new(format!("extract|definition|{}", p.sig()), p.describe())]),
            Err(eng::EngErr::Err(e)) => return Verdict::Violated(vec![Violation::new(format!("extract|definition-rejected|{}", e.chars().filter(|c| !c.is_ascii_digit()).take(40).collect::<String>()), format!("a definition in the documented syntax was rejected: {} :: {}", e, text))]),
        };
        let mut vs: Vec<Violation> = Vec::new();
        let table_hash = crate::rng::fnv1a(text.as_bytes());
        for (line, ob) in lines.iter().zip(observed.iter()) {
            obs.evals += 1;
            let Some(ctx) = eval_patterns(&spec, line) else { return Verdict::Inconclusive("regex-rejected-by-model".into()) };
            let accepts: Vec<Accept> = (0..spec.cols.len()).map(|ci| expect_regex_column(&spec, ci, &ctx)).collect();
            let matched = ctx.values().any(|r| !matches!(r, PatResult::NoMatch));
            if matched && accepts.iter().any(|a| a.situation != "pattern-unmatched") { obs.sub(crate::rng::mix(&[table_hash, crate::rng::fnv1a(line.as_bytes())])); }
            for (c, a) in spec.cols.iter().zip(accepts.iter()) {
                let parsing = match &c.src { Src::Group(..) => "group", Src::Multi(_) => "multi", Src::Inline(_) => "inline", Src::Json(_) => "json" };
                obs.hit(&format!("{}/{}/{}", parsing, c.ty.tag(), a.situation));
            }
            for v in judge_row(&spec, &accepts, ob, line) { if !vs.iter().any(|x: &Violation| x.sig == v.sig) { vs.push(v); } }
        }
        let _: HashMap<(), ()> = HashMap::new();
        if vs.is_empty() { Verdict::Held } else { Verdict::Violated(vs) }
    }
}
