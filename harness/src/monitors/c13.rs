//! C13 — expressions group by standard SQL operator precedence and associativity.
//! The generator owns the AST; it is printed with minimal parentheses under the reference grammar and the
//! structure recovered from `parsing::parse` (public `model::ExpressionTree`) must be that AST.

use serde_json::{json, Value as J};
use sqlgrep::model::Statement;

use crate::ast::*;
use crate::conv::{canon, from_engine, op_class};
use crate::gen::*;
use crate::rng::Rng;
use crate::runner::*;
use crate::val::Ty;

pub struct C13;

fn leaf(i: usize) -> E { match i % 5 { 0 => col("a"), 1 => col("b"), 2 => E::Int(1), 3 => col("c"), _ => E::Int(2) } }

/// all operator "shapes": a constructor taking the operands (leaves or an inner operator)
fn shapes() -> Vec<(&'static str, usize)> {
    vec![("OR", 2), ("AND", 2), ("NOT", 1), ("=", 2), ("!=", 2), ("<", 2), ("<=", 2), (">", 2), (">=", 2), ("IS", 2), ("IS NOT", 2), ("IN", 3), ("NOT IN", 3),
         ("+", 2), ("-", 2), ("*", 2), ("/", 2), ("neg", 1), ("cast", 1), ("subscript", 2)]
}

fn build(shape: &str, ops: Vec<E>) -> E {
    let mut it = ops.into_iter();
    let mut next = || it.next().unwrap_or(E::Null);
    match shape {
        "NOT" => E::Not(b(next())),
        "neg" => E::Neg(b(next())),
        "cast" => E::Cast(b(next()), Ty::Int),
        "subscript" => { let a = next(); E::Index(b(a), b(next())) }
        "IS" => { let l = next(); E::Is(false, b(l), b(next())) }
        "IS NOT" => { let l = next(); E::Is(true, b(l), b(next())) }
        "IN" => { let x = next(); let v1 = next(); E::In(false, b(x), vec![v1, next()]) }
        "NOT IN" => { let x = next(); let v1 = next(); E::In(true, b(x), vec![v1, next()]) }
        o => { let l = next(); bin(o, l, next()) }
    }
}

fn text_of(e: &E, mode: Paren) -> String { format!("SELECT {} FROM t", render(e, mode)) }

/// the minimal text with every blank removed that is not needed to keep two tokens apart (`xs[1]-1`, `a*-b`, `x::int`)
fn glued_text(e: &E) -> String {
    let mut toks = Vec::new();
    expr_tokens(e, Paren::Minimal, &mut toks);
    let mut out = String::from("SELECT ");
    for (i, t) in toks.iter().enumerate() { if i > 0 && !crate::monitors::c20::can_touch(&toks[i - 1], t) { out.push(' '); } out.push_str(&t.text); }
    out.push_str(" FROM t");
    out
}

/// every token on a line of its own, starting in column 0 (an operator may end one line and another begin the next)
fn one_token_per_line(e: &E) -> String {
    let mut toks = Vec::new();
    expr_tokens(e, Paren::Minimal, &mut toks);
    format!("SELECT\n{}\nFROM t", toks.iter().map(|t| t.text.as_str()).collect::<Vec<_>>().join("\n"))
}

fn parsed_projection(text: &str) -> Result<Option<E>, String> {
    match guard(|| sqlgrep::parsing::parse(text)) {
        Err(p) => Err(format!("panic:{}", p.sig())),
        Ok(Err(e)) => Err(format!("{}", e)),
        Ok(Ok(Statement::Select(s))) => Ok(s.projections.first().and_then(|(_, t)| from_engine(t))),
        Ok(Ok(_)) => Ok(None),
    }
}

/// first position at which the two trees differ: (expected node, got node)
fn first_difference<'a>(want: &'a E, got: &'a E) -> Option<(&'a E, &'a E)> {
    if want == got { return None; }
    let (wc, gc) = (want.children(), got.children());
    let same_head = std::mem::discriminant(want) == std::mem::discriminant(got) && wc.len() == gc.len() && match (want, got) {
        (E::Bin(a, _, _), E::Bin(b2, _, _)) => a == b2, (E::Is(a, _, _), E::Is(b2, _, _)) => a == b2, (E::In(a, _, _), E::In(b2, _, _)) => a == b2,
        (E::Call(a, _), E::Call(b2, _)) => a == b2, (E::Cast(_, a), E::Cast(_, b2)) => a == b2, (E::Extract(a, _), E::Extract(b2, _)) => a == b2, _ => true };
    if same_head { for (w, g) in wc.iter().zip(gc.iter()) { if let Some(d) = first_difference(w, g) { return Some(d); } } }
    Some((want, got))
}

fn norm_err(e: &str) -> String {
    let mut out = String::new();
    let mut quoted = false;
    for c in e.chars() { if c == '\'' { quoted = !quoted; out.push(c); } else if !quoted { out.push(c); } }
    out.chars().take(60).collect()
}

fn grouping_sig(want: &E, got: Result<&E, &str>) -> String {
    let inner = want.children().iter().map(|c| op_class(c)).find(|c| *c != "leaf").unwrap_or("leaf");
    match got {
        Ok(g) => format!("grouping|outer={}|inner={}|parsed-as={}", op_class(want), inner, op_class(g)),
        Err(e) => format!("reject|outer={}|inner={}|{}", op_class(want), inner, norm_err(e)),
    }
}

impl Monitor for C13 {
    fn id(&self) -> &'static str { "C13" }
    fn rule(&self) -> &'static str {
        "the harness prints its own AST with minimal parentheses under the reference grammar (cast/subscript > unary minus > * / > + - > comparisons, IS, IN > NOT > AND > OR, left associative) and requires parse() to recover exactly that AST (structural comparison of model::ExpressionTree); the fully parenthesised text must recover it too. Exhaustive: every (outer operator, inner operator, operand position) combination over 20 operator shapes, with and without a negative literal; random trees to depth 6 with functions, casts, subscripts, CASE, IN (also one-element lists) and redundant parentheses; one case in 40 is a flat chain of 20-130 terms (IN lists, comparisons, calls; left- or right-nested: up to 130 levels of parentheses in the full text). Non-trivial = minimal text omits parentheses the full text has and the tree has >= 2 operator nodes; distinct by AST hash"
    }
    fn assumptions(&self) -> Vec<String> { vec!["reference grammar as stated in the property; IS / IN share the comparison level, binary operators associate to the left".into()] }
    fn sizes(&self, tier: Tier) -> Sizes { match tier { Tier::Quick => Sizes { cases: 40_000, min_nontrivial: 5_000 }, Tier::Thorough => Sizes { cases: 3_000_000, min_nontrivial: 200_000 } } }
    fn exhaustive_note(&self) -> Option<String> { Some("all (outer shape, inner shape, operand position) triples over 20 operator shapes, plus `x <op> -1` and `x <op> -y` for every binary operator (kind=pair)".into()) }

    fn enumerate(&self, _tier: Tier, emit: &mut dyn FnMut(J)) {
        let sh = shapes();
        for (outer, on) in &sh {
            for (inner, inn) in &sh {
                for pos in 0..*on {
                    let inner_e = build(inner, (0..*inn).map(|i| leaf(i + 1)).collect());
                    let ops: Vec<E> = (0..*on).map(|i| if i == pos { inner_e.clone() } else { leaf(i + 3) }).collect();
                    emit(json!({"kind": "pair", "ast": build(outer, ops).to_json()}));
                }
            }
        }
        for (o, n) in &sh {
            if *n < 2 { continue; }
            for operand in [E::Neg(b(E::Int(1))), E::Neg(b(col("y"))), E::Neg(b(E::Real(1.5)))] {
                let mut ops: Vec<E> = (0..*n).map(leaf).collect();
                let last = ops.len() - 1;
                ops[last] = operand.clone();
                emit(json!({"kind": "negative-operand", "ast": build(o, ops).to_json()}));
            }
        }
        // one-element IN lists
        for not in [false, true] { for v in [E::Int(1), text("a"), E::Neg(b(E::Int(1))), bin("+", col("a"), E::Int(1))] {
            emit(json!({"kind": "single-in", "ast": E::In(not, b(col("x")), vec![v]).to_json()}));
        } }
    }

    fn generate(&self, rng: &mut Rng, _tier: Tier) -> J {
        let schema = Schema { table: "t".into(), cols: std_columns().into_iter().map(|(n, t)| (n.to_string(), t)).collect() };
        let cfg = ExprCfg { max_depth: 6, ill_typed: 150, null_leaf: 40, hostile: false, allow_now: true, readme_names: false, single_in: true };
        let ty = random_ty(rng);
        let depth = 2 + rng.below(5) as u32;
        // long flat conditions (dozens of IN lists, comparisons and parenthesised operands in one chain) and deep nesting:
        // what a generated filter over many codes looks like
        if rng.chance(1, 40) {
            let n = 20 + rng.below(110);
            let op = *rng.pick(&["OR", "AND", "OR"]);
            let term = |rng: &mut Rng| -> E {
                match rng.below(5) {
                    0 | 1 => E::In(rng.chance(1, 4), b(col(*rng.pick(&["g", "i"]))), (0..(2 + rng.below(3))).map(|_| int(rng.range(-3, 2000))).collect()),
                    2 => E::In(false, b(col("k")), vec![text("a"), text("b")]),
                    3 => bin(*rng.pick(&["=", "<", ">="]), bin("*", bin("+", col("i"), int(1)), int(2)), int(rng.range(0, 9))),
                    _ => bin("=", call("least", vec![col("g"), int(rng.range(0, 9))]), col("i")),
                }
            };
            let mut e = term(rng);
            let right_nested = rng.chance(1, 3);
            for _ in 1..n { let t = term(rng); e = if right_nested { bin(op, t, e) } else { bin(op, e, t) }; }
            return json!({"kind": "random", "ast": e.to_json(), "paren_seed": rng.next_u64() | 1, "wide": n});
        }
        let e = gen_expr(rng, &schema, &ty, depth, &cfg);
        json!({"kind": if rng.chance(1, 4) { "extra-parens" } else { "random" }, "ast": e.to_json(), "paren_seed": rng.next_u64() | 1})
    }

    fn check(&self, case: &J, obs: &mut Obs) -> Verdict {
        let Some(ast) = E::from_json(&case["ast"]) else { return Verdict::Inconclusive("malformed-case".into()) };
        let kind = case["kind"].as_str().unwrap_or("");
        obs.hit(&format!("kind:{}", kind));
        if let Some(n) = case["wide"].as_u64() { obs.hit(if n > 64 { "wide:over-64-terms" } else { "wide:up-to-64-terms" }); }
        let want = canon(&ast);
        let full = text_of(&ast, Paren::Full);
        if kind == "extra-parens" { EXTRA_PARENS.with(|c| c.set(case["paren_seed"].as_u64().unwrap_or(1))); }
        let min = text_of(&ast, Paren::Minimal);
        EXTRA_PARENS.with(|c| c.set(0));
        if min.len() + 2 <= full.len() && ast.op_nodes() >= 2 { obs.nontrivial(); }
        obs.hit(&format!("root:{}", op_class(&ast)));
        let mut vs = Vec::new();
        // the fully parenthesised text first: if even that is not understood, the grouping question cannot be asked
        let full_ok = match parsed_projection(&full) {
            Ok(Some(g)) => { let g = canon(&g); if g == want { true } else { let (w, gg) = first_difference(&want, &g).unwrap_or((&want, &g)); vs.push(Violation::new(format!("full-paren|{}", grouping_sig(w, Ok(gg))), format!("text {:?}: expected {:?}, parsed {:?}", full, w, gg))); false } }
            Ok(None) => return Verdict::Inconclusive("not-a-plain-projection".into()),
            Err(e) => { vs.push(Violation::new(format!("full-paren|{}", grouping_sig(&want, Err(&e))), format!("text {:?} rejected: {}", full, e))); false }
        };
        // the same tokens without the optional blanks: grouping must not depend on them
        if full_ok && kind != "extra-parens" {
            let glued = glued_text(&ast);
            obs.evals += 1;
            match parsed_projection(&glued) {
                Ok(Some(g)) => { let g = canon(&g); if g != want { let (w, gg) = first_difference(&want, &g).unwrap_or((&want, &g)); vs.push(Violation::new(format!("glued|{}", grouping_sig(w, Ok(gg))), format!("text {:?}: expected sub-tree {}, parsed as {}", glued, render(w, Paren::Full), render(gg, Paren::Full)))); } }
                Ok(None) => {}
                Err(e) => vs.push(Violation::new(format!("glued|reject|{}", e.chars().filter(|c| !c.is_ascii_digit()).take(40).collect::<String>()), format!("text {:?} rejected: {} (with single blanks between the tokens it is {:?})", glued, e, min))),
            }
        }
        if full_ok && kind != "extra-parens" {
            let lines = one_token_per_line(&ast);
            obs.evals += 1;
            match parsed_projection(&lines) {
                Ok(Some(g)) => { let g = canon(&g); if g != want { let (w, gg) = first_difference(&want, &g).unwrap_or((&want, &g)); vs.push(Violation::new(format!("token-per-line|{}", grouping_sig(w, Ok(gg))), format!("text {:?}: expected sub-tree {}, parsed as {}", lines, render(w, Paren::Full), render(gg, Paren::Full)))); } }
                Ok(None) => {}
                Err(e) => vs.push(Violation::new(format!("token-per-line|reject|{}", e.chars().filter(|c| !c.is_ascii_digit()).take(40).collect::<String>()), format!("text {:?} rejected: {}", lines, e))),
            }
        }
        match parsed_projection(&min) {
            Ok(Some(g)) => {
                let g = canon(&g);
                if g != want { let (w, gg) = first_difference(&want, &g).unwrap_or((&want, &g)); vs.push(Violation::new(grouping_sig(w, Ok(gg)), format!("text {:?}: expected sub-tree {}, parsed as {}", min, render(w, Paren::Full), render(gg, Paren::Full)))); }
            }
            Ok(None) => vs.push(Violation::new("not-a-select".to_string(), format!("text {:?} did not parse to a plain SELECT", min))),
            Err(e) => {
                // localise: the smallest sub-expression whose minimal text is rejected
                let mut culprit = &ast;
                loop {
                    let next = culprit.children().into_iter().find(|c| parsed_projection(&text_of(c, Paren::Minimal)).is_err());
                    match next { Some(n) => culprit = n, None => break }
                }
                let cw = canon(culprit);
                let e2 = parsed_projection(&text_of(culprit, Paren::Minimal)).err().unwrap_or(e);
                vs.push(Violation::new(grouping_sig(&cw, Err(&e2)), format!("text {:?} rejected: {} (smallest rejected part: {:?})", min, e2, render(culprit, Paren::Minimal))));
            }
        }
        let _ = full_ok;
        if vs.is_empty() { Verdict::Held } else { Verdict::Violated(vs) }
    }
}
