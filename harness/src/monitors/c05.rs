//! C05 — JOIN pairs exactly the rows with equal join keys.
//! The pairing (nested loop over each side's own `SELECT *` rows) is the only trusted code: the statement under
//! test is evaluated over the pair stream by the engine itself on a pre-joined single table.

use serde_json::{json, Value as J};

use crate::ast::*;
use crate::eng;
use crate::gen::*;
use crate::monitors::c01::observe_rows;
use crate::rng::Rng;
use crate::runner::*;
use crate::val::*;

pub struct C05;

fn rename(e: &E, f: &dyn Fn(&str) -> String) -> E {
    match e {
        E::Col(c) => E::Col(f(c)),
        E::Neg(x) => E::Neg(b(rename(x, f))), E::Not(x) => E::Not(b(rename(x, f))),
        E::Bin(o, l, r) => E::Bin(o.clone(), b(rename(l, f)), b(rename(r, f))),
        E::Is(n, l, r) => E::Is(*n, b(rename(l, f)), b(rename(r, f))),
        E::In(n, x, vs) => E::In(*n, b(rename(x, f)), vs.iter().map(|v| rename(v, f)).collect()),
        E::Call(n, a) => E::Call(n.clone(), a.iter().map(|v| rename(v, f)).collect()),
        E::Agg(n, d, a) => E::Agg(n.clone(), *d, a.iter().map(|v| rename(v, f)).collect()),
        E::Extract(p, x) => E::Extract(p.clone(), b(rename(x, f))),
        E::ArrayLit(a) => E::ArrayLit(a.iter().map(|v| rename(v, f)).collect()),
        E::Index(a, i) => E::Index(b(rename(a, f)), b(rename(i, f))),
        E::Cast(x, t) => E::Cast(b(rename(x, f)), t.clone()),
        E::Case(cs, el) => E::Case(cs.iter().map(|(c, r)| (rename(c, f), rename(r, f))).collect(), b(rename(el, f))),
        other => other.clone(),
    }
}

fn rename_sel(s: &Sel, f: &dyn Fn(&str) -> String) -> Sel {
    let mut o = s.clone();
    o.projs = s.projs.iter().map(|(e, a)| (rename(e, f), a.clone())).collect();
    o.filter = s.filter.as_ref().map(|e| rename(e, f));
    o.group_by = s.group_by.as_ref().map(|g| g.iter().map(|e| rename(e, f)).collect());
    o.having = s.having.as_ref().map(|e| rename(e, f));
    o
}

fn uses_input(s: &Sel) -> bool { s.text(Paren::Full).split(' ').any(|w| w == "input") }

fn json_cell(name: &str, v: &RV) -> Option<String> {
    let val = match v {
        RV::Null => return None,
        RV::Int(i) => i.to_string(),
        RV::Real(x) => if x.is_finite() { fmt_json_real(*x) } else { return None },
        RV::Bool(b) => b.to_string(),
        RV::Text(s) => json_str(s),
        RV::Arr(_, xs) => format!("[{}]", xs.iter().map(|x| match x { RV::Null => "null".to_string(), RV::Int(i) => i.to_string(), RV::Text(s) => json_str(s), RV::Real(r) => fmt_json_real(*r), RV::Bool(b) => b.to_string(), _ => "null".into() }).collect::<Vec<_>>().join(",")),
        RV::Ts(t) => { let c = parts_from_ts(*t); json_str(&format!("{:04}-{:02}-{:02} {:02}:{:02}:{:02}", c.y, c.mo, c.d, c.h, c.mi, c.s)) }
        RV::Iv(us) => { let s = us / 1_000_000; json_str(&format!("{}:{:02}:{:02}", s / 3600, (s / 60) % 60, s % 60)) }
    };
    Some(format!("{}:{}", json_str(name), val))
}

impl Monitor for C05 {
    fn id(&self) -> &'static str { "C05" }
    fn rule(&self) -> &'static str {
        "case = two standard typed tables t (queried) and u (joined, read from disk by the code under test), key columns of every scalar type with NULL keys, keys duplicated on either side or absent on one side, 0-12 rows per side, ON in either orientation, INNER / OUTER, and a generated SELECT / DISTINCT / aggregate statement over both sides' columns (qualified and unqualified names). Oracle: the engine's result equals the engine's own result over the harness-paired rows (equal non-NULL keys, ordered by r then s position, OUTER adds one NULL-extended row per partnerless r in non-aggregate queries) written as one pre-joined table; `*` lists t's columns then u's with clashing names qualified; a missing join column / table / file is an error. Non-trivial = a key with multiplicity >= 2 on one side and >= 1 on the other, or NULL keys on both sides; distinct by case hash"
    }
    fn assumptions(&self) -> Vec<String> { vec!["each side's rows are the engine's own SELECT * rows (C01/C02)".into(), "the statement over the pre-joined table is evaluated by the engine (C03/C04)".into()] }
    fn sizes(&self, tier: Tier) -> Sizes { match tier { Tier::Quick => Sizes { cases: 24_000, min_nontrivial: 7_000 }, Tier::Thorough => Sizes { cases: 250_000, min_nontrivial: 80_000 } } }

    fn generate(&self, rng: &mut Rng, _tier: Tier) -> J {
        let jt = rng.chance(2, 3); let ju = rng.chance(2, 3);
        let t = std_table(rng, "t", jt, true);
        let mut u = std_table(rng, "u", ju, true);
        // make u differ from t: drop a column and add one of its own
        if rng.chance(1, 2) { let at = 3 + rng.below(u.schema.cols.len() - 3); u.schema.cols.remove(at); u = rebuild(&u, rng, ju); }
        // some columns of either table declare a DEFAULT: an absent cell shows it, but the NULL-extended row of an outer join
        // still has NULL there (the joined side contributes nothing to that row)
        let (mut t, mut u) = (t, u);
        for tab in [&mut t, &mut u] {
            if rng.chance(1, 3) {
                for c in tab.spec.cols.iter_mut() {
                    if c.modifier != Modifier::None || !rng.chance(1, 3) { continue; }
                    c.modifier = match c.ty { Ty::Int => Modifier::Default(E::Int(77)), Ty::Text => Modifier::Default(E::Str("dflt".into())), Ty::Real => Modifier::Default(E::Real(2.5)), Ty::Bool => Modifier::Default(E::Bool(true)), _ => Modifier::None };
                }
            }
        }
        let key_choices: Vec<&str> = ["k", "g", "i", "r", "b", "s", "ts", "iv"].into_iter().filter(|c| t.schema.ty_of(c).is_some() && u.schema.ty_of(c).is_some()).collect();
        let mut key = *rng.pick(&key_choices);
        // whole REAL keys of magnitude 2^63 and beyond: distinct keys that a detour through 64-bit integers merges
        let huge = key_choices.contains(&"r") && rng.chance(1, 8);
        if huge && rng.chance(3, 4) { key = "r"; }
        // a column whose name differs from the join column only in letter case, defined BEFORE it and holding other values
        // (JSON flavour: the extra field needs no change of the line pattern)
        for tab in [&mut t, &mut u] {
            if tab.json && rng.chance(1, 4) {
                let at = tab.schema.cols.iter().position(|(n, _)| n == key).unwrap_or(0);
                let ty = tab.schema.cols[at].1.clone();
                let twin = key.to_uppercase();
                tab.schema.cols.insert(at, (twin.clone(), ty.clone()));
                tab.spec.cols.insert(at, ColSpec { name: twin.clone(), ty: ty.clone(), src: Src::Json(vec![JsonStep::Field(twin)]), modifier: if matches!(ty, Ty::Ts | Ty::Iv) { Modifier::Convert } else { Modifier::None } });
            }
        }
        let dct = DataCfg { keys: 1 + rng.below(3), huge_reals: huge, ..DataCfg::random(rng, t.schema.cols.len(), false) };
        let dcu = DataCfg { keys: 1 + rng.below(3), huge_reals: huge, ..DataCfg::random(rng, u.schema.cols.len(), false) };
        let nt = rng.below(13); let nu = rng.below(13);
        let mut tl = std_lines(rng, &t, nt, &dct);
        let mut ul = std_lines(rng, &u, nu, &dcu);
        // blank and foreign lines on either side: rows only where a DEFAULT makes them rows (then they pair like any other row)
        for lines in [&mut tl, &mut ul] {
            if rng.chance(1, 4) { for _ in 0..(1 + rng.below(3)) { let at = rng.below(lines.len() + 1); lines.insert(at, rng.pick(&["", "", " ", "garbage", "{}"]).to_string()); } }
        }
        // repeated log lines: rows that are equal in every column must still be paired once each
        for lines in [&mut tl, &mut ul] {
            if !lines.is_empty() && rng.chance(1, 2) { for _ in 0..(1 + rng.below(3)) { let l = lines[rng.below(lines.len())].clone(); let at = rng.below(lines.len() + 1); lines.insert(at, l); } }
        }
        // statement over the virtual pre-joined schema
        let mut jcols: Vec<(String, Ty)> = t.schema.cols.iter().map(|(n, ty)| (format!("t_{}", n), ty.clone())).collect();
        jcols.extend(u.schema.cols.iter().map(|(n, ty)| (format!("u_{}", n), ty.clone())));
        let js = Schema { table: "j".into(), cols: jcols };
        let ecfg = ExprCfg { ill_typed: 0, max_depth: 2, ..Default::default() };
        let mut sj = loop {
            let s = match rng.below(4) {
                0 => { let mut s = Sel { from: "j".into(), ..Default::default() }; s.projs.push((E::Star, None)); if rng.chance(1, 2) { s.filter = Some(gen_expr(rng, &js, &Ty::Bool, 2, &ecfg)); } s }
                1 => gen_aggregate(rng, &js, &AggCfg { expr: ecfg.clone(), allow_limit: true, ..Default::default() }),
                _ => gen_select(rng, &js, &StmtCfg { expr: ecfg.clone(), allow_star: false, allow_limit: true, max_limit: 8, ..Default::default() }),
            };
            if !uses_input(&s) { break s; }
        };
        sj.from = "j".into();
        let outer = rng.chance(1, 3);
        let flip = rng.chance(1, 2);
        let tnames: Vec<String> = t.schema.cols.iter().map(|(n, _)| n.clone()).collect();
        let bare_ok = rng.chance(1, 2);
        let mapper = move |c: &str| -> String {
            let c = c.strip_prefix("j.").unwrap_or(c);
            if let Some(n) = c.strip_prefix("t_") { if bare_ok { n.to_owned() } else { format!("t.{}", n) } }
            else if let Some(n) = c.strip_prefix("u_") { if bare_ok && !tnames.iter().any(|x| x == n) { n.to_owned() } else { format!("u.{}", n) } }
            else { c.to_owned() }
        };
        let mut s = rename_sel(&sj, &mapper);
        s.from = "t".into();
        s.join = Some(Join { outer, table: "u".into(), file: "@JOINED@".into(), left: if flip { ("u".into(), key.into()) } else { ("t".into(), key.into()) }, right: if flip { ("t".into(), key.into()) } else { ("u".into(), key.into()) } });
        let mut jspec = TableSpec { name: "j".into(), patterns: vec![], cols: vec![] };
        for (n, ty) in &js.cols { jspec.cols.push(ColSpec { name: n.clone(), ty: ty.clone(), src: Src::Json(vec![JsonStep::Field(n.clone())]), modifier: if matches!(ty, Ty::Ts | Ty::Iv) { Modifier::Convert } else { Modifier::None } }); }
        // a table joined with (another file of) itself: `*` lists the queried line's columns, then the joined line's
        if rng.chance(1, 12) {
            let ul2 = std_lines(rng, &t, nu, &dct);
            let mut j2 = TableSpec { name: "j".into(), patterns: vec![], cols: vec![] };
            for side in ["t", "u"] { for (n, ty) in &t.schema.cols { let name = format!("{}_{}", side, n); j2.cols.push(ColSpec { name: name.clone(), ty: ty.clone(), src: Src::Json(vec![JsonStep::Field(name)]), modifier: if matches!(ty, Ty::Ts | Ty::Iv) { Modifier::Convert } else { Modifier::None } }); } }
            let names: Vec<String> = t.schema.cols.iter().map(|(n, _)| n.clone()).collect();
            return json!({"kind": "join", "tables": t.spec.text(), "t_table": t.spec.text(), "u_table": t.spec.text(), "j_table": j2.text(),
                "stmt": format!("SELECT * FROM t {} JOIN t :: '@JOINED@' ON t . {} = t . {}", if outer { "OUTER" } else { "INNER" }, key, key), "stmt_j": "SELECT * FROM j",
                "t_lines": tl, "u_lines": ul2, "key": key, "outer": outer, "t_cols": names.clone(), "u_cols": names, "fault": "none", "u_crlf": false, "u_unterminated": false, "fault_limit": J::Null, "self_join": true});
        }
        json!({"kind": "join", "tables": format!("{} {}", t.spec.text(), u.spec.text()), "t_table": t.spec.text().replace("CREATE TABLE t ", "CREATE TABLE t "), "u_table": u.spec.text().replace("CREATE TABLE u ", "CREATE TABLE t "),
               "j_table": jspec.text(), "stmt": s.text(Paren::Full), "stmt_j": sj.text(Paren::Full), "t_lines": tl, "u_lines": ul, "key": key, "outer": outer,
               "t_cols": t.schema.cols.iter().map(|(n, _)| n.clone()).collect::<Vec<_>>(), "u_cols": u.schema.cols.iter().map(|(n, _)| n.clone()).collect::<Vec<_>>(),
               "fault": match rng.below(12) { 0 => "missing-file", 1 => "missing-table", 2 => "missing-joined-column", 3 => "missing-joiner-column", _ => "none" },
               // the faulty statement sometimes carries a LIMIT (0: no row can be produced - the fault is an error all the same)
               "u_crlf": rng.chance(1, 4), "u_unterminated": rng.chance(1, 6),
               "fault_limit": match rng.below(4) { 0 => json!(0), 1 => json!(rng.below(3) + 1), _ => J::Null }})
    }

    fn check(&self, case: &J, obs: &mut Obs) -> Verdict {
        let strs = |k: &str| -> Vec<String> { case[k].as_array().map(|a| a.iter().filter_map(|x| x.as_str().map(|s| s.to_owned())).collect()).unwrap_or_default() };
        let (tl, ul, tcols, ucols) = (strs("t_lines"), strs("u_lines"), strs("t_cols"), strs("u_cols"));
        let key = case["key"].as_str().unwrap_or("k");
        let outer = case["outer"].as_bool().unwrap_or(false);
        let fault = case["fault"].as_str().unwrap_or("none");
        let tag = case_hash(case);
        let tables = match eng::tables_from(case["tables"].as_str().unwrap_or("")) { Ok(t) => t, Err(e) => return Verdict::Inconclusive(format!("table: {}", e.show())) };
        // the joined file is written with LF or CRLF line ends, sometimes without the final line end: the same lines either way
        let eol = if case["u_crlf"] == true { "\r\n" } else { "\n" };
        let mut utext: String = ul.iter().map(|l| format!("{}{}", l, eol)).collect();
        if case["u_unterminated"] == true && !ul.last().map(|l| l.is_empty()).unwrap_or(true) { utext.truncate(utext.len() - eol.len()); }
        if case["u_crlf"] == true { obs.hit("joined-file:crlf"); }
        let upath = eng::write_scratch(&format!("c05-u-{}.log", tag), utext.as_bytes());
        let cleanup = || { let _ = std::fs::remove_file(&upath); };
        obs.hit(&format!("fault:{}", fault));

        // error reporting for a missing join column / table / file
        if fault != "none" && !tl.is_empty() {
            let mut sql = case["stmt"].as_str().unwrap_or("").replace("@JOINED@", &upath.display().to_string());
            match fault {
                "missing-file" => sql = sql.replace(&upath.display().to_string(), "/nonexistent/dir/u.log"),
                "missing-table" => sql = sql.replace(" JOIN u ::", " JOIN nosuchtable ::").replace(&format!("u . {}", key), &format!("nosuchtable . {}", key)),
                "missing-joined-column" => sql = sql.replace(&format!("u . {}", key), "u . nosuchcolumn"),
                _ => sql = sql.replace(&format!("= t . {}", key), "= t . nosuchcolumn").replace(&format!("ON t . {} =", key), "ON t . nosuchcolumn ="),
            }
            if let Some(n) = case["fault_limit"].as_u64() { { if !sql.contains(" LIMIT ") { sql = format!("{} LIMIT {}", sql, n); obs.hit(&format!("fault-with-limit:{}", n.min(1))); } } }
            let res = eng::parse(&sql).and_then(|st| eng::exec_batch(&tables, &st, &tl));
            cleanup();
            // rows of t that pass extraction must exist for the joiner-side column to be looked at
            let any_t_row = observe_rows(case["t_table"].as_str().unwrap_or(""), &tl).map(|r| r.iter().any(|x| matches!(x, Ok(Some(_))))).unwrap_or(false);
            obs.nontrivial();
            return match res {
                Err(eng::EngErr::Err(_)) => Verdict::Held,
                Err(eng::EngErr::Panic(p)) => Verdict::Violated(vec![Violation::new(format!("join|{}|panic:{}", fault, p.class()), p.describe())]),
                Ok(out) => if fault == "missing-joiner-column" && (!any_t_row || sql.ends_with(" LIMIT 0")) { Verdict::Inconclusive("no-row-reached-the-join".into()) } else { Verdict::Violated(vec![Violation::new(format!("join|{}|no-error", fault), format!("{:?} printed {} rows instead of reporting an error", sql, out.rows.len()))]) },
            };
        }

        // each side's own rows
        let (trows, urows) = match (observe_rows(case["t_table"].as_str().unwrap_or(""), &tl), observe_rows(case["u_table"].as_str().unwrap_or(""), &ul)) { (Ok(a), Ok(b)) => (a, b), _ => { cleanup(); return Verdict::Inconclusive("lower-layer-error".into()); } };
        let side = |rows: Vec<Result<Option<Vec<RV>>, eng::EngErr>>| -> Option<Vec<Vec<RV>>> { let mut out = Vec::new(); for r in rows { match r { Ok(Some(v)) => out.push(v), Ok(None) => {}, Err(_) => return None } } Some(out) };
        let (Some(trows), Some(urows)) = (side(trows), side(urows)) else { cleanup(); return Verdict::Inconclusive("lower-layer-error".into()) };
        let (Some(tk), Some(uk)) = (tcols.iter().position(|c| c == key), ucols.iter().position(|c| c == key)) else { cleanup(); return Verdict::Inconclusive("malformed-case".into()) };

        // the pairing: the only trusted code
        let aggregate = case["stmt_j"].as_str().unwrap_or("").contains("GROUP BY") || ["count (", "sum (", "min (", "max (", "avg (", "stddev (", "variance (", "percentile (", "bool_and (", "bool_or (", "array_agg (", "string_agg ("].iter().any(|a| case["stmt_j"].as_str().unwrap_or("").contains(a));
        let mut jlines: Vec<String> = Vec::new();
        let mut expected_star: Vec<Vec<RV>> = Vec::new();
        let mut fanout = false; let mut null_both = false;
        for r in &trows {
            let partners: Vec<&Vec<RV>> = urows.iter().filter(|s| !r[tk].is_null() && !s[uk].is_null() && eq_ref(&r[tk], &s[uk]) == Some(true)).collect();
            if partners.len() >= 2 { fanout = true; }
            if r[tk].is_null() && urows.iter().any(|s| s[uk].is_null()) { null_both = true; }
            let mut emit = |s: Option<&Vec<RV>>| {
                let mut cells: Vec<String> = tcols.iter().zip(r.iter()).filter_map(|(n, v)| json_cell(&format!("t_{}", n), v)).collect();
                if let Some(s) = s { cells.extend(ucols.iter().zip(s.iter()).filter_map(|(n, v)| json_cell(&format!("u_{}", n), v))); }
                jlines.push(format!("{{{}}}", cells.join(",")));
                let mut row = r.clone();
                match s { Some(s) => row.extend(s.iter().cloned()), None => row.extend(ucols.iter().map(|_| RV::Null)) }
                expected_star.push(row);
            };
            if partners.is_empty() { if outer && !aggregate { emit(None); } } else { for s in partners { emit(Some(s)); } }
        }
        let dup_t = trows.iter().any(|r| !r[tk].is_null() && trows.iter().filter(|x| eq_ref(&x[tk], &r[tk]) == Some(true)).count() >= 2 && urows.iter().any(|s| eq_ref(&s[uk], &r[tk]) == Some(true)));
        if fanout || dup_t || null_both { obs.nontrivial(); }
        obs.hit(if outer { "join:outer" } else { "join:inner" });
        if case["self_join"] == true { obs.hit("join:table-with-itself"); }
        obs.hit(if aggregate { "stmt:aggregate" } else { "stmt:select" });
        obs.hit(&format!("key:{}", key));

        let sql = case["stmt"].as_str().unwrap_or("").replace("@JOINED@", &upath.display().to_string());
        let got = eng::parse(&sql).and_then(|st| eng::exec_batch(&tables, &st, &tl));
        cleanup();
        let jt = match eng::tables_from(case["j_table"].as_str().unwrap_or("")) { Ok(t) => t, Err(e) => return Verdict::Inconclusive(format!("j table: {}", e.show())) };
        let want = eng::parse(case["stmt_j"].as_str().unwrap_or("")).and_then(|st| eng::exec_batch(&jt, &st, &jlines));
        let shape = format!("{}|{}", if outer { "outer" } else { "inner" }, if aggregate { "aggregate" } else { "select" });
        let star = case["stmt_j"].as_str().unwrap_or("").starts_with("SELECT * ");
        match (got, want) {
            (Err(eng::EngErr::Panic(p)), _) => Verdict::Violated(vec![Violation::new(format!("join|{}|panic:{}", shape, p.class()), p.describe())]),
            (_, Err(eng::EngErr::Panic(_))) => Verdict::Inconclusive("lower-layer-panic".into()),
            (Err(_), Err(_)) => Verdict::Inconclusive("both-error".into()),
            // with LIMIT the pre-joined run stops at the line of its n-th row, the join has paired the whole queried line before the
            // limit is applied: an error in a later pair of that line is the error the unlimited statement reports (C07: LIMIT n =
            // the first n rows of the statement without LIMIT), not a fault of the join
            (Err(_), Ok(_)) if !aggregate && strip_limit(case["stmt_j"].as_str().unwrap_or("")).map(|q| matches!(eng::parse(&q).and_then(|st| eng::exec_batch(&jt, &st, &jlines)), Err(eng::EngErr::Err(_)))).unwrap_or(false) => { obs.hit("limit:error-in-a-later-pair"); Verdict::Inconclusive("error-in-a-pair-beyond-the-limit".into()) }
            (Err(e), Ok(_)) => Verdict::Violated(vec![Violation::new(format!("join|{}|error-only-with-join", shape), format!("{:?}: {} (the same statement over the paired rows succeeds)", sql, e.show()))]),
            (Ok(g), Err(e)) => {
                // the pre-joined evaluation sees every pair; the join may legitimately never reach a failing pair only if there is none
                Verdict::Violated(vec![Violation::new(format!("join|{}|no-error-with-join", shape), format!("{:?} printed {} rows, over the paired rows it fails: {}", sql, g.rows.len(), e.show()))])
            }
            (Ok(g), Ok(w)) => {
                let mut vs = Vec::new();
                let same = g.rows.len() == w.rows.len() && g.rows.iter().zip(w.rows.iter()).all(|(a, b2)| a.len() == b2.len() && a.iter().zip(b2.iter()).all(|(x, y)| x.same(y, 1e-12)));
                if !same {
                    let kind = if g.rows.len() > w.rows.len() { "extra-rows" } else if g.rows.len() < w.rows.len() { "missing-rows" } else { "rows-differ" };
                    let nul = if null_both { "|null-keys-on-both-sides" } else { "" };
                    vs.push(Violation::new(format!("join|{}|{}{}", shape, kind, nul), format!("{:?}: join gives {} rows {}, pairing gives {} rows {}", sql, g.rows.len(), g.rows.iter().take(3).map(|r| show_row(r)).collect::<Vec<_>>().join(" "), w.rows.len(), w.rows.iter().take(3).map(|r| show_row(r)).collect::<Vec<_>>().join(" "))));
                }
                if star && !g.rows.is_empty() {
                    let mut names: Vec<String> = tcols.clone();
                    let jname = if case["self_join"] == true { "t" } else { "u" };
                    for c in &ucols { if tcols.contains(c) { names.push(format!("{}.{}", jname, c)); } else { names.push(c.clone()); } }
                    if g.columns != names { vs.push(Violation::new(format!("join|{}|star-columns", shape), format!("columns {:?}, expected {:?}", g.columns, names))); }
                    if case["stmt_j"].as_str() == Some("SELECT * FROM j") {
                        let ok = g.rows.len() == expected_star.len() && g.rows.iter().zip(expected_star.iter()).all(|(a, b2)| a.len() == b2.len() && a.iter().zip(b2.iter()).all(|(x, y)| x.same(y, 0.0)));
                        if !ok { vs.push(Violation::new(format!("join|{}|star-values", shape), format!("{} rows vs {} paired rows", g.rows.len(), expected_star.len()))); }
                    }
                }
                if vs.is_empty() { Verdict::Held } else { Verdict::Violated(vs) }
            }
        }
    }
}

/// rebuild the table text after a schema change
fn rebuild(t: &StdTable, rng: &mut Rng, json: bool) -> StdTable {
    let mut fresh = std_table(rng, &t.schema.table, json, true);
    let keep: Vec<String> = t.schema.cols.iter().map(|(n, _)| n.clone()).collect();
    if json {
        fresh.schema.cols.retain(|(n, _)| keep.contains(n));
        fresh.spec.cols.retain(|c| keep.contains(&c.name));
    }
    fresh
}

/// the statement without its trailing LIMIT clause (None if it has none)
fn strip_limit(sql: &str) -> Option<String> {
    let i = sql.rfind(" LIMIT ")?;
    if sql[i + 7..].trim().chars().all(|c| c.is_ascii_digit()) && !sql[i + 7..].trim().is_empty() { Some(sql[..i].to_string()) } else { None }
}
