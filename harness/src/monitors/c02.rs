//! C02 — JSON-path extraction yields exactly the addressed JSON value, typed.
//! The harness generates the documents, so it knows the value at every path by construction (no JSON parsing in the oracle).

use serde_json::{json, Value as J};

use crate::ast::*;
use crate::monitors::c01::judge_row;
use crate::refx::*;
use crate::rng::Rng;
use crate::runner::*;
use crate::val::*;

pub struct C02;

const KEYS: &[&str] = &["a", "b", "c", "d", "e", "A", "a1", "k_2", "\u{e5}"];
const ODD_KEYS: &[&str] = &["a b", "", "a.b", "0"];
const NUMS: &[&str] = &["0", "1", "-1", "42", "9007199254740993", "-9007199254740995", "9223372036854775806", "4611686018427387905", "-4611686018427387907", "9007199254740992", "18014398509481985", "1.0", "1e2", "-0", "1.5", "-2.5e-3", "9223372036854775807", "9223372036854775808", "-9223372036854775808", "-9223372036854775809", "18446744073709551615", "18446744073709551616", "1e400", "-1e400", "1E5", "0.1", "123456789012345678901234567890", "7", "3", "1.8e306", "9007199254740993.0", "0.30000000000000004", "2.2250738585072011e-308", "1.7976931348623157e308", "4.35", "123456789.12345678901234567890", "5e-324", "2.4703282292062327e-324", "8.5e-325"];

/// a number token: from the pool, or a REAL with 16-20 significant digits and any exponent (decoders that round approximately differ from the nearest double there)
fn gen_num(rng: &mut Rng) -> String {
    if rng.chance(3, 4) { return rng.pick(NUMS).to_string(); }
    let nd = 16 + rng.below(5);
    let digits: String = (0..nd).map(|i| (b'0' + if i == 0 { 1 + rng.below(9) } else { rng.below(10) } as u8) as char).collect();
    let exp = rng.range(-330, 300);
    format!("{}{}.{}e{}", if rng.chance(1, 4) { "-" } else { "" }, &digits[..1], &digits[1..], exp)
}
const STRS: &[&str] = &["", "x", "hello world", "42", "-7", "1.5", "true", "2021-03-04 05:06:07", "1:02:03", "quote\"inside", "back\\slash", "tab\there", "line\nbreak", "\u{e5}\u{1F600}", "NaN", " 5 ", "null"];

pub fn gen_value(rng: &mut Rng, depth: usize) -> JV {
    let leafy = depth == 0 || rng.chance(1, 2);
    if leafy {
        return match rng.below(8) { 0 => JV::Null, 1 => JV::Bool(rng.chance(1, 2)), 2 | 3 | 4 => JV::Num(gen_num(rng)), _ => JV::Str(rng.pick(STRS).to_string()) };
    }
    if rng.chance(1, 2) {
        let n = rng.below(5);
        let homogeneous = rng.chance(2, 3);
        let kind = rng.below(3);
        JV::Arr((0..n).map(|_| if homogeneous { match kind { 0 => JV::Num(gen_num(rng)), 1 => JV::Str(rng.pick(STRS).to_string()), _ => gen_value(rng, depth - 1) } } else { gen_value(rng, depth - 1) }).collect())
    } else { gen_object(rng, depth) }
}

pub fn gen_object(rng: &mut Rng, depth: usize) -> JV {
    let n = rng.below(6);
    let mut fields: Vec<(String, JV)> = Vec::new();
    for _ in 0..n {
        let k = if rng.chance(1, 12) { rng.pick(ODD_KEYS).to_string() } else { rng.pick(KEYS).to_string() };
        if fields.iter().any(|(x, _)| *x == k) && !rng.chance(1, 6) { continue; } // duplicate keys only sometimes
        fields.push((k, gen_value(rng, depth.saturating_sub(1))));
    }
    JV::Obj(fields)
}

fn write_str(rng: &mut Rng, s: &str, out: &mut String) {
    out.push('"');
    for c in s.chars() {
        match c {
            '"' => out.push_str("\\\""), '\\' => out.push_str("\\\\"), '\n' => out.push_str("\\n"), '\t' => out.push_str("\\t"), '\r' => out.push_str("\\r"),
            c if (c as u32) < 0x20 => out.push_str(&format!("\\u{:04x}", c as u32)),
            c if rng.chance(1, 8) => { let mut buf = [0u16; 2]; for u in c.encode_utf16(&mut buf) { out.push_str(&format!("\\u{:04X}", u)); } }
            c => out.push(c),
        }
    }
    out.push('"');
}

fn ws(rng: &mut Rng, out: &mut String) { if rng.chance(1, 4) { out.push_str(*rng.pick(&[" ", "  ", "\t"])); } }

pub fn write_json(rng: &mut Rng, v: &JV, out: &mut String) {
    match v {
        JV::Null => out.push_str("null"), JV::Bool(b) => out.push_str(if *b { "true" } else { "false" }), JV::Num(s) => out.push_str(s), JV::Str(s) => write_str(rng, s, out),
        JV::Arr(a) => { out.push('['); ws(rng, out); for (i, x) in a.iter().enumerate() { if i > 0 { out.push(','); ws(rng, out); } write_json(rng, x, out); ws(rng, out); } out.push(']'); }
        JV::Obj(o) => { out.push('{'); ws(rng, out); for (i, (k, x)) in o.iter().enumerate() { if i > 0 { out.push(','); ws(rng, out); } write_str(rng, k, out); ws(rng, out); out.push(':'); ws(rng, out); write_json(rng, x, out); ws(rng, out); } out.push('}'); }
    }
}

/// a path that walks into `doc` (so it often resolves), possibly perturbed
pub fn gen_path(rng: &mut Rng, doc: &JV) -> Vec<JsonStep> {
    let mut steps = Vec::new();
    let mut cur = doc;
    let want = 1 + rng.below(5);
    for _ in 0..want {
        match cur {
            JV::Obj(o) if !o.is_empty() && rng.chance(5, 6) => {
                let addressable: Vec<&(String, JV)> = o.iter().filter(|(k, _)| !k.is_empty() && k.chars().next().unwrap().is_alphabetic() && k.chars().all(|c| c.is_alphanumeric() || c == '_')).collect();
                if addressable.is_empty() { steps.push(JsonStep::Field(rng.pick(KEYS).to_string())); break; }
                let (k, v) = addressable[rng.below(addressable.len())];
                steps.push(JsonStep::Field(k.clone())); cur = v;
            }
            JV::Arr(a) if !a.is_empty() && rng.chance(5, 6) => { let i = rng.below(a.len() + 1); steps.push(JsonStep::Index(i as u64)); if i < a.len() { cur = &a[i]; } else { break; } }
            _ => { if rng.chance(1, 2) { steps.push(JsonStep::Field(rng.pick(KEYS).to_string())); } else { steps.push(JsonStep::Index(rng.below(3) as u64)); } break; }
        }
        if rng.chance(1, 4) { break; }
    }
    if steps.is_empty() { steps.push(JsonStep::Field(rng.pick(KEYS).to_string())); }
    steps
}

impl Monitor for C02 {
    fn id(&self) -> &'static str { "C02" }
    fn rule(&self) -> &'static str {
        "case = table with 1-6 JSON-path columns (paths of 1-5 field/index steps chosen by walking a generated document, then hitting present / absent / wrong-kind nodes; every type; CONVERT / DEFAULT / NOT NULL) plus sometimes a regex column, and 6 lines: documents owned by the harness (depth <= 5, occasionally 100; number spellings 1.0, 1e2, -0, 2^63, 2^64, 1e400; \\u escapes; duplicate keys; random whitespace) and non-documents (truncations, trailing garbage, two documents, empty line). Expected values are read off the generated tree. Non-trivial = a path resolved to a present leaf or failed at a non-first step; distinct by (column, document) hash"
    }
    fn assumptions(&self) -> Vec<String> { vec!["documents nest at most 100 deep (documented bound: serde_json's recursion limit is 128)".into(), "std's f64 parser gives the value of a number spelling".into()] }
    fn sizes(&self, tier: Tier) -> Sizes { match tier { Tier::Quick => Sizes { cases: 16_000, min_nontrivial: 20_000 }, Tier::Thorough => Sizes { cases: 800_000, min_nontrivial: 500_000 } } }

    fn generate(&self, rng: &mut Rng, _tier: Tier) -> J {
        let ndocs = 6;
        let mut docs: Vec<Option<JV>> = Vec::new();
        let mut lines: Vec<String> = Vec::new();
        for _ in 0..ndocs {
            let doc = match rng.below(20) {
                0 => { // deep nesting
                    let d = *rng.pick(&[20usize, 64, 99, 100]);
                    let mut v = JV::Num("7".into());
                    for i in 0..d { v = if i % 2 == 0 { JV::Arr(vec![v]) } else { JV::Obj(vec![("a".into(), v)]) }; }
                    v
                }
                1 => gen_value(rng, 2), // may be a scalar document
                _ => { let d = 1 + rng.below(4); gen_object(rng, d) }
            };
            let mut text = String::new();
            write_json(rng, &doc, &mut text);
            match rng.below(14) {
                0 => { let cut = if text.is_empty() { 0 } else { rng.below(text.len()) }; let mut c = cut; while !text.is_char_boundary(c) { c -= 1; } lines.push(text[..c].to_owned()); docs.push(if c == text.len() { Some(doc) } else { None }); }
                1 => { lines.push(format!("{} x", text)); docs.push(None); }
                2 => { lines.push(format!("{} {}", text, text)); docs.push(None); }
                3 => { lines.push(String::new()); docs.push(None); }
                4 => { lines.push("not json at all".into()); docs.push(None); }
                // a document with a character around it that is white space for Unicode but not for JSON: not a JSON text.
                // (blank, tab, CR are JSON white space: the document stays one)
                5 => { let w = *rng.pick(&["\u{c}", "\u{b}", "\u{a0}", "\u{3000}", "\u{2028}", "\u{feff}", "\u{85}", "\u{2003}"]); lines.push(match rng.below(3) { 0 => format!("{}{}", w, text), 1 => format!("{}{}", text, w), _ => format!("{}{}{}", w, text, w) }); docs.push(None); }
                6 => { let w = *rng.pick(&[" ", "\t", "\r", "  \t "]); lines.push(match rng.below(3) { 0 => format!("{}{}", w, text), 1 => format!("{}{}", text, w), _ => format!("{}{}{}", w, text, w) }); docs.push(Some(doc)); }
                _ => { lines.push(text); docs.push(Some(doc)); }
            }
        }
        let base = docs.iter().flatten().next().cloned().unwrap_or(JV::Obj(vec![]));
        let ncols = 1 + rng.below(6);
        let mut spec = TableSpec { name: "t".into(), patterns: vec![], cols: vec![] };
        for ci in 0..ncols {
            let from = docs.iter().flatten().nth(rng.below(3)).cloned().unwrap_or(base.clone());
            let steps = gen_path(rng, &from);
            let ty = match rng.below(12) { 0 | 1 | 2 => Ty::Int, 3 | 4 => Ty::Real, 5 | 6 => Ty::Text, 7 => Ty::Bool, 8 => Ty::Arr(Box::new(Ty::Int)), 9 => Ty::Arr(Box::new(Ty::Text)), 10 => Ty::Ts, _ => Ty::Iv };
            let modifier = match rng.below(8) {
                0 => Modifier::NotNull, 1 | 2 => Modifier::Convert,
                3 | 4 => match &ty { Ty::Int => Modifier::Default(E::Int(99)), Ty::Real => Modifier::Default(E::Real(2.5)), Ty::Text => Modifier::Default(E::Str("dflt".into())), Ty::Bool => Modifier::Default(E::Bool(true)), _ => Modifier::Default(E::Null) },
                _ => Modifier::None,
            };
            // one column in six: several modifiers at once (the first through the SQL text, the others through the library API,
            // which is how the crate's own tests and embedding programs build tables): CONVERT + DEFAULT, NOT NULL + CONVERT, ...
            let modifier = if rng.chance(1, 6) {
                let mut parts: Vec<Modifier> = if modifier == Modifier::None { vec![] } else { vec![modifier] };
                let mut extra: Vec<Modifier> = vec![Modifier::NotNull, Modifier::Convert, Modifier::Convert];
                match &ty { Ty::Int => extra.push(Modifier::Default(E::Int(5))), Ty::Real => extra.push(Modifier::Default(E::Real(0.5))), Ty::Text => extra.push(Modifier::Default(E::Str("other".into()))), Ty::Bool => extra.push(Modifier::Default(E::Bool(false))), _ => {} }
                for _ in 0..(1 + rng.below(2)) { let m = rng.pick(&extra).clone(); if !parts.iter().any(|p| std::mem::discriminant(p) == std::mem::discriminant(&m)) { parts.push(m); } }
                if parts.len() >= 2 { Modifier::Combo(parts) } else { parts.pop().unwrap_or(Modifier::None) }
            } else { modifier };
            spec.cols.push(ColSpec { name: format!("c{}", ci), ty, src: Src::Json(steps), modifier });
        }
        if rng.chance(1, 4) { spec.cols.push(ColSpec { name: "rx".into(), ty: Ty::Int, src: Src::Inline("\"a\"\\s*:\\s*(-?[0-9]+)".into()), modifier: Modifier::None }); }
        json!({"spec": spec.to_json(), "table": spec.text(), "lines": lines, "docs": docs.iter().map(|d| d.as_ref().map(|d| d.to_case())).collect::<Vec<_>>()})
    }

    fn check(&self, case: &J, obs: &mut Obs) -> Verdict {
        let Some(spec) = TableSpec::from_json(&case["spec"]) else { return Verdict::Inconclusive("malformed-case".into()) };
        let lines: Vec<String> = case["lines"].as_array().map(|a| a.iter().filter_map(|x| x.as_str().map(|s| s.to_owned())).collect()).unwrap_or_default();
        let docs: Vec<Option<JV>> = case["docs"].as_array().map(|a| a.iter().map(JV::from_case).collect()).unwrap_or_default();
        // a JSON `null` document and "no document" are both stored as null: the line text tells them apart
        let text = case["table"].as_str().unwrap_or("");
        let observed = match crate::monitors::c01::observe_rows_spec(&spec, &lines) {
            Ok(o) => o,
            Err(crate::eng::EngErr::Panic(p)) => return Verdict::Violated(vec![Violation::new(format!("extract|definition|{}", p.sig()), p.describe())]),
            Err(crate::eng::EngErr::Err(e)) => return Verdict::Violated(vec![Violation::new(format!("extract|definition-rejected|{}", e.chars().filter(|c| !c.is_ascii_digit()).take(40).collect::<String>()), format!("rejected: {} :: {}", e, text))]),
        };
        let mut vs: Vec<Violation> = Vec::new();
        let table_hash = crate::rng::fnv1a(text.as_bytes());
        for (li, (line, ob)) in lines.iter().zip(observed.iter()).enumerate() {
            obs.evals += 1;
            let doc: Option<JV> = match docs.get(li) { Some(Some(d)) => if *d == JV::Null && line.trim() != "null" { None } else { Some(d.clone()) }, _ => None };
            let ctx = match eval_patterns(&spec, line) { Some(c) => c, None => return Verdict::Inconclusive("regex-rejected-by-model".into()) };
            let accepts: Vec<Accept> = spec.cols.iter().enumerate().map(|(ci, c)| if matches!(c.src, Src::Json(_)) { expect_json_column(c, doc.as_ref()) } else { expect_regex_column(&spec, ci, &ctx) }).collect();
            for (ci, (c, a)) in spec.cols.iter().zip(accepts.iter()).enumerate() {
                if !matches!(c.src, Src::Json(_)) { continue; }
                let conv = if c.convert() { "+convert" } else { "" };
                obs.hit(&format!("json/{}{}/{}", c.ty.tag(), conv, a.situation));
                let nontrivial = a.situation == "path-present" || a.situation == "duplicate-keys" || (a.situation == "path-absent" && doc.as_ref().map(|d| { if let Src::Json(steps) = &c.src { steps.len() > 1 && !resolve(d, &steps[..1]).is_empty() } else { false } }).unwrap_or(false));
                if nontrivial { obs.sub(crate::rng::mix(&[table_hash, ci as u64, crate::rng::fnv1a(line.as_bytes())])); }
            }
            if doc.as_ref().map(|d| d.depth() >= 20).unwrap_or(false) { obs.hit("document-depth>=20"); }
            for v in judge_row(&spec, &accepts, ob, line) { if !vs.iter().any(|x: &Violation| x.sig == v.sig) { vs.push(v); } }
        }
        if vs.is_empty() { Verdict::Held } else { Verdict::Violated(vs) }
    }
}
