//! C20 — a statement's meaning does not depend on layout, letter case or clause order.
//! The harness owns the token list, so variants are generated *between* tokens only.

use serde_json::{json, Value as J};

use crate::ast::*;
use crate::gen::*;
use crate::rng::Rng;
use crate::runner::*;

pub struct C20;

fn word_like(t: &Tok) -> bool { matches!(t.kind, TK::Keyword | TK::Name | TK::Ident | TK::Number) }

/// may the blank between two neighbouring tokens be dropped without the two running together?
pub fn can_touch(a: &Tok, b: &Tok) -> bool {
    // a number ends where its digits end: a keyword or name may follow it directly (`THEN 1ELSE 0END`, `4AND`)
    if a.kind == TK::Number && matches!(b.kind, TK::Keyword | TK::Name | TK::Ident) && b.text.chars().next().map(|c| c.is_alphabetic() || c == '_').unwrap_or(false) { return true; }
    if word_like(a) && word_like(b) { return false; }
    if a.kind == TK::Str || b.kind == TK::Str { return a.kind == TK::Punct && a.text != "=>" || b.kind == TK::Punct && b.text != "=>"; }
    let opish = |t: &Tok| t.kind == TK::Op || t.text == "=>";
    // two operators may touch unless their meeting characters spell another token (`<=`, `>=`, `!=`, `--`, `<>`, `::`, `=>`, `==`, `||`)
    if opish(a) && opish(b) {
        let pair = (a.text.chars().last().unwrap_or(' '), b.text.chars().next().unwrap_or(' '));
        return !matches!(pair, ('<', '=') | ('>', '=') | ('!', '=') | ('-', '-') | ('<', '>') | (':', ':') | ('=', '>') | ('=', '=') | ('|', '|') | ('<', '<') | ('>', '>') | ('-', '>'));
    }
    // "1." or ".5" would become a number
    if (a.kind == TK::Number && b.text == ".") || (a.text == "." && b.kind == TK::Number) { return false; }
    true
}

fn flip_case(rng: &mut Rng, s: &str) -> String {
    match rng.below(3) {
        0 => s.to_lowercase(),
        1 => s.to_uppercase(),
        _ => s.chars().map(|c| if rng.chance(1, 2) { c.to_ascii_uppercase() } else { c.to_ascii_lowercase() }).collect(),
    }
}

const SPACES: &[&str] = &[" ", "  ", "\t", "\n", "\r\n", " \n ", "\u{a0}", "\u{2003}", "\u{3000}"];
const COMMENTS: &[&str] = &["-- note", "--", "-- SELECT x FROM y;", "-- it's 'quoted'", "--- dashes ---", "-- \u{e5}\u{1F600}",
    // a comment whose first character is a quote, a backslash, another dash, a semicolon (commented-out code often starts like that)
    "--'tis a comment", "--'quoted' => c TEXT ,", "--\"x", "--\\", "--;", "--(", "--::int"];

/// renders the tokens with the requested transformations; returns the text and how many places differ from the base
fn variant_text(rng: &mut Rng, toks: &[Tok], kinds: &[&str]) -> (String, usize) {
    let mut out = String::new();
    let mut changed = 0;
    let has = |k: &str| kinds.contains(&k);
    if has("lead") { out.push_str(*rng.pick(SPACES)); changed += 1; }
    for (i, t) in toks.iter().enumerate() {
        if i > 0 {
            let prev = &toks[i - 1];
            let mut sep = " ".to_owned();
            if has("comment") && rng.chance(1, 6) { sep = format!(" {}\n", rng.pick(COMMENTS)); changed += 1; }
            else if has("space+") && rng.chance(1, 3) { sep = format!("{}{}", rng.pick(SPACES), rng.pick(SPACES)); changed += 1; }
            else if has("space-") && can_touch(prev, t) && rng.chance(2, 3) { sep = String::new(); changed += 1; }
            out.push_str(&sep);
        }
        if has("case") && matches!(t.kind, TK::Keyword | TK::Name) && rng.chance(2, 3) { let f = flip_case(rng, &t.text); if f != t.text { changed += 1; } out.push_str(&f); }
        else { out.push_str(&t.text); }
    }
    if has("trail") { out.push_str(*rng.pick(SPACES)); changed += 1; }
    // a comment as the very last thing, with and without text, with and without a line end
    if has("comment-end") { out.push_str(*rng.pick(&[" -- the end", " --", "--", " -- x\n--", " --\n", "\n-- last line is a comment"])); changed += 1; }
    (out, changed)
}

fn permutations(items: &[String]) -> Vec<Vec<String>> {
    if items.len() <= 1 { return vec![items.to_vec()]; }
    let mut out = Vec::new();
    for i in 0..items.len() {
        let mut rest = items.to_vec();
        let x = rest.remove(i);
        for mut p in permutations(&rest) { p.insert(0, x.clone()); out.push(p); }
    }
    out
}

fn debug_of(text: &str) -> Result<String, String> {
    match guard(|| sqlgrep::parsing::parse(text)) {
        Err(p) => Err(format!("panic {}", p.sig())),
        Ok(Err(e)) => Err(format!("{}", e)),
        Ok(Ok(s)) => Ok(format!("{:?}", s)),
    }
}

fn norm_err(e: &str) -> String {
    let mut out = String::new();
    let mut quoted = false;
    for c in e.chars() { if c == '\'' { quoted = !quoted; out.push(c); } else if !quoted { out.push(c); } }
    out.chars().take(50).collect()
}

impl Monitor for C20 {
    fn id(&self) -> &'static str { "C20" }
    fn rule(&self) -> &'static str {
        "base = generated SELECT / aggregate / join statement or CREATE TABLE, tokens joined by single blanks; variants change only what lies between tokens or the case of case-insensitive tokens: random case per keyword / function / aggregate / type / modifier name / NULL TRUE FALSE, whitespace runs (blank, tab, CR, LF, Unicode spaces) inserted, blanks removed where the neighbours cannot run together, `-- comment` + newline at token boundaries, optional trailing `;`, and all permutations of the present JOIN / WHERE / GROUP BY / HAVING / LIMIT clauses (exhaustive per statement). Oracle: Debug rendering of the parsed Statement equal to the base's. Non-trivial = variant differs from the base in >= 3 places; distinct by variant text hash"
    }
    fn assumptions(&self) -> Vec<String> { vec!["string literal contents are never touched".into(), "if the base text does not parse the case is inconclusive (C13/C14 territory)".into()] }
    fn sizes(&self, tier: Tier) -> Sizes { match tier { Tier::Quick => Sizes { cases: 8_000, min_nontrivial: 10_000 }, Tier::Thorough => Sizes { cases: 400_000, min_nontrivial: 300_000 } } }
    fn exhaustive_note(&self) -> Option<String> { None }

    fn generate(&self, rng: &mut Rng, _tier: Tier) -> J {
        if rng.chance(1, 8) {
            // a string literal in several positions: its text is verbatim apart from the backslash escapes
            let alphabet = ["a", "b", " ", "'", "\\", "-", "--", ";", ":", "::", "\n", "\t", "\"", "\u{e5}", "\u{1F600}", "%", "(", "SELECT", "n", "t"];
            let text: String = if rng.chance(1, 3) { rng.pick(&["", "\\", "'", "C:\\logs\\", "it's", "a -- b", "x;y", "'quoted'", "\\'", "'\\", "\\\\", "tab\there", "line\nbreak", "--", "\\n"]).to_string() } else { let n = rng.below(8); (0..n).map(|_| *rng.pick(&alphabet)).collect() };
            return json!({"literal": text, "position": *rng.pick(&["projection", "where", "in-list", "function-arg", "file-name", "join-file", "case-branch"])});
        }
        let js = rng.chance(1, 2);
        let t = std_table(rng, "t", js, false);
        let (toks, sel): (Vec<Tok>, Option<Sel>) = if rng.chance(1, 4) {
            // a CREATE TABLE, sometimes with modifiers / split / inline patterns
            let mut spec = t.spec.clone();
            if !js {
                if rng.chance(1, 2) { spec.patterns.push(PatSpec { name: "parts".into(), regex: "[,;]".into(), split: true }); spec.cols.push(ColSpec { name: "p1".into(), ty: crate::val::Ty::Text, src: Src::Group("parts".into(), 1), modifier: Modifier::Trim }); }
                if rng.chance(1, 2) { spec.cols.push(ColSpec { name: "inl".into(), ty: crate::val::Ty::Int, src: Src::Inline("id=([0-9]+)".into()), modifier: if rng.chance(1, 2) { Modifier::NotNull } else { Modifier::Default(E::Int(7)) } }); }
            } else if rng.chance(1, 2) { spec.cols.push(ColSpec { name: "deep".into(), ty: crate::val::Ty::Real, src: Src::Json(vec![JsonStep::Field("a".into()), JsonStep::Index(2), JsonStep::Field("b".into())]), modifier: Modifier::Default(E::Real(1.5)) }); }
            // every modifier name appears (their letter case must not matter either)
            for c in spec.cols.iter_mut() { if c.modifier == Modifier::None && rng.chance(1, 3) { c.modifier = match (&c.ty, rng.below(4)) { (crate::val::Ty::Text, 0) => Modifier::Trim, (_, 1) => Modifier::NotNull, (crate::val::Ty::Ts, _) => Modifier::Microseconds, (_, 2) => Modifier::Convert, _ => Modifier::None }; } }
            (spec.tokens(), None)
        } else {
            let ecfg = ExprCfg { readme_names: false, ill_typed: 50, ..Default::default() };
            let mut s = if rng.chance(1, 2) { gen_select(rng, &t.schema, &StmtCfg { expr: ecfg, allow_limit: true, ..Default::default() }) }
                        else { gen_aggregate(rng, &t.schema, &AggCfg { expr: ecfg, allow_distinct: true, allow_limit: true, ..Default::default() }) };
            if rng.chance(1, 3) { s.join = Some(Join { outer: rng.chance(1, 2), table: "u".into(), file: "/data/u file's.log".into(), left: ("t".into(), "k".into()), right: ("u".into(), "k".into()) }); }
            if rng.chance(1, 4) { s.from_file = Some("some dir/in put.log".into()); }
            if s.limit.is_none() && rng.chance(1, 2) { s.limit = Some(rng.below(100) as u64); }
            // minimal parentheses put operator tokens next to each other (`6 - - 2`, `a * - b`): what lies between them must not matter either
            (s.tokens(if rng.chance(1, 2) { Paren::Full } else { Paren::Minimal }), Some(s))
        };
        let base = join_tokens(&toks);
        let single: &[&[&str]] = &[&["case"], &["space+"], &["space-"], &["comment"], &["lead", "trail"], &["comment-end"]];
        let mut variants = Vec::new();
        for _ in 0..6 {
            let kinds: Vec<&str> = if rng.chance(1, 2) { single[rng.below(single.len())].to_vec() } else {
                let mut k: Vec<&str> = Vec::new();
                for c in ["case", "space+", "space-", "comment", "lead", "trail", "comment-end"] { if rng.chance(1, 2) { k.push(c); } }
                if k.is_empty() { k.push("case"); }
                k
            };
            let mut toks2 = toks.clone();
            let mut k2 = kinds.clone();
            // optional trailing semicolon (SELECT only: CREATE TABLE requires it)
            if sel.is_some() && rng.chance(1, 3) { toks2.push(tk(";", TK::Punct)); k2.push("semicolon"); }
            let (text, changed) = variant_text(rng, &toks2, &kinds);
            variants.push(json!({"kinds": k2, "text": text, "changed": changed + if k2.contains(&"semicolon") { 1 } else { 0 }}));
        }
        json!({"base": base, "variants": variants, "sel": sel.map(|s| s.to_json())})
    }

    fn check(&self, case: &J, obs: &mut Obs) -> Verdict {
        if let Some(text) = case.get("literal").and_then(|t| t.as_str()) { return check_literal(text, case["position"].as_str().unwrap_or("projection"), obs); }
        let base = case["base"].as_str().unwrap_or("");
        let want = match debug_of(base) {
            Ok(d) => d,
            Err(e) => {
                // the canonical spelling (upper-case keywords, single blanks) is rejected: if any re-spelling of the same
                // tokens is accepted, the meaning depends on the spelling; if all are rejected, spelling is not the reason
                let accepted = case["variants"].as_array().map(|a| a.as_slice()).unwrap_or(&[]).iter().filter_map(|v| v["text"].as_str()).find(|t| debug_of(t).is_ok());
                return match accepted {
                    Some(t) => Verdict::Violated(vec![Violation::new(format!("layout|canonical-spelling|reject:{}", norm_err(&e)), format!("base {:?} rejected ({}), but its re-spelling {:?} is accepted", base, e, t))]),
                    None => Verdict::Inconclusive(format!("base-rejected: {}", norm_err(&e))),
                };
            }
        };
        obs.hit(if base.starts_with("CREATE") { "stmt:create-table" } else if base.contains("JOIN") { "stmt:join" } else { "stmt:select" });
        let mut vs: Vec<Violation> = Vec::new();
        let mut judge = |kinds: String, text: &str, vs: &mut Vec<Violation>, obs: &mut Obs| {
            obs.evals += 1;
            match debug_of(text) {
                Ok(d) if d == want => {}
                Ok(_) => { let sig = format!("layout|{}|parses-differently", kinds); if !vs.iter().any(|v| v.sig == sig) { vs.push(Violation::new(sig, format!("base {:?} variant {:?}", base, text))); } }
                Err(e) => { let sig = format!("layout|{}|reject:{}", kinds, norm_err(&e)); if !vs.iter().any(|v| v.sig == sig) { vs.push(Violation::new(sig, format!("variant {:?} of base {:?} rejected: {}", text, base, e))); } }
            }
        };
        for v in case["variants"].as_array().map(|a| a.as_slice()).unwrap_or(&[]) {
            let text = v["text"].as_str().unwrap_or("");
            let mut kinds: Vec<String> = v["kinds"].as_array().map(|a| a.iter().filter_map(|x| x.as_str().map(|s| s.to_owned())).collect()).unwrap_or_default();
            kinds.sort();
            for k in &kinds { obs.hit(&format!("variant:{}", k)); }
            if v["changed"].as_u64().unwrap_or(0) >= 3 { obs.sub(crate::rng::fnv1a(text.as_bytes())); }
            // the signature names the transformation only when it was applied alone
            judge(if kinds.len() == 1 { kinds[0].clone() } else { "mixed".to_owned() }, text, &mut vs, obs);
        }
        // clause permutations, exhaustive
        if let Some(sel) = case.get("sel").filter(|s| !s.is_null()).and_then(Sel::from_json) {
            let mut present: Vec<String> = Vec::new();
            if sel.join.is_some() { present.push("join".into()); }
            if sel.filter.is_some() { present.push("where".into()); }
            if sel.group_by.is_some() { present.push("group".into()); }
            if sel.having.is_some() { present.push("having".into()); }
            if sel.limit.is_some() { present.push("limit".into()); }
            if present.len() >= 2 {
                for perm in permutations(&present) {
                    let mut s2 = sel.clone();
                    s2.order = perm.clone();
                    let text = s2.text(Paren::Full);
                    if perm != present { obs.sub(crate::rng::fnv1a(text.as_bytes())); }
                    obs.hit("variant:clause-order");
                    judge("clause-order".into(), &text, &mut vs, obs);
                }
            }
        }
        if vs.is_empty() { Verdict::Held } else { Verdict::Violated(vs) }
    }
}


/// `'<text with quotes and backslashes escaped>'` written at one position of a statement must come out of the parser as
/// exactly <text> (looked up in the lowered statement), and the tokens after it must still be understood
fn check_literal(text: &str, position: &str, obs: &mut Obs) -> Verdict {
    use sqlgrep::model::{ExpressionTree, Statement, Value};
    let lit = quote(text);
    let sql = match position {
        "where" => format!("SELECT k FROM t WHERE s = {} LIMIT 3", lit),
        "in-list" => format!("SELECT k FROM t WHERE s IN ( 'x' , {} , 'y' ) LIMIT 3", lit),
        "function-arg" => format!("SELECT upper ( {} ) , 7 FROM t", lit),
        "case-branch" => format!("SELECT CASE WHEN TRUE THEN {} ELSE 'e' END , 7 FROM t", lit),
        "file-name" => format!("SELECT k FROM t :: {} WHERE g = 1", lit),
        "join-file" => format!("SELECT k FROM t INNER JOIN u :: {} ON t . k = u . k LIMIT 2", lit),
        _ => format!("SELECT {} , 7 FROM t", lit),
    };
    obs.evals += 1;
    obs.hit(&format!("literal:{}", position));
    if text.contains('\\') || text.contains('\'') { obs.sub(crate::rng::fnv1a(sql.as_bytes())); }
    let stmt = match guard(|| sqlgrep::parsing::parse(&sql)) {
        Err(p) => return Verdict::Violated(vec![Violation::new(format!("literal|{}|panic", position), format!("{:?}: {}", sql, p.describe()))]),
        Ok(Err(e)) => return Verdict::Violated(vec![Violation::new(format!("literal|{}|rejected", position), format!("{:?} (literal text {:?}): {}", sql, text, e))]),
        Ok(Ok(s)) => s,
    };
    let Statement::Select(sel) = &stmt else { return Verdict::Violated(vec![Violation::new(format!("literal|{}|not-a-select", position), format!("{:?} parsed as {:?}", sql, stmt))]) };
    fn strings(t: &ExpressionTree, out: &mut Vec<String>) { let _ = t.visit::<(), _>(&mut |n| { if let ExpressionTree::Value(Value::String(s)) = n { out.push(s.clone()); } Ok(()) }); }
    let mut found: Vec<String> = Vec::new();
    let rest_ok = match position {
        "where" => { if let Some(f) = &sel.filter { strings(f, &mut found); } sel.limit == Some(3) }
        "in-list" => { if let Some(f) = &sel.filter { strings(f, &mut found); } found.retain(|s| s != "x" && s != "y" || s == text); sel.limit == Some(3) }
        "file-name" => { if let Some(f) = &sel.filename { found.push(f.clone()); } sel.filter.is_some() }
        "join-file" => { if let Some(j) = &sel.join { found.push(j.joined_filename.clone()); } sel.limit == Some(2) }
        "case-branch" => { if let Some((_, e)) = sel.projections.first() { strings(e, &mut found); } found.retain(|s| s != "e" || s == text); sel.projections.len() == 2 }
        _ => { if let Some((_, e)) = sel.projections.first() { strings(e, &mut found); } sel.projections.len() == 2 }
    };
    if !found.iter().any(|s| s == text) { return Verdict::Violated(vec![Violation::new(format!("literal|{}|text-differs", position), format!("{:?}: the literal {:?} arrived as {:?}", sql, text, found))]); }
    if !rest_ok { return Verdict::Violated(vec![Violation::new(format!("literal|{}|rest-of-statement-lost", position), format!("{:?}: what follows the literal was not understood: {:?}", sql, stmt))]); }
    Verdict::Held
}
