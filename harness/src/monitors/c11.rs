//! C11 — incremental (tail -f) results equal a batch run over the same prefix.

use serde_json::{json, Value as J};

use crate::ast::*;
use crate::eng::{self, RowsOut};
use crate::monitors::relcommon::*;
use crate::rng::Rng;
use crate::runner::*;

pub struct C11;

impl Monitor for C11 {
    fn id(&self) -> &'static str { "C11" }
    fn rule(&self) -> &'static str {
        "case = statement without LIMIT (plain, DISTINCT, aggregate with HAVING / PERCENTILE / COUNT(DISTINCT) / aggregate DISTINCT) over 3-30 lines, one case in six an aggregate with an INNER / OUTER JOIN over a joined file with unique join keys (at most one partner per line: the open finding about several partners cannot occur); the lines are fed one at a time with ExecutionConfig::default() (the call follow mode makes). Oracle for every prefix length k: the table an aggregate shows after line k equals a fresh batch run over lines 1..k; the rows a non-aggregate emits for line k are exactly the suffix by which batch(k) extends batch(k-1). Non-trivial = >= 2 refreshes changed the output; distinct by (case, k) hash"
    }
    fn assumptions(&self) -> Vec<String> { vec!["batch = fresh engine, update-only per line, one aggregate_result (what FileExecutor does)".into()] }
    fn sizes(&self, tier: Tier) -> Sizes { match tier { Tier::Quick => Sizes { cases: 3_000, min_nontrivial: 10_000 }, Tier::Thorough => Sizes { cases: 150_000, min_nontrivial: 500_000 } } }

    fn generate(&self, rng: &mut Rng, _tier: Tier) -> J {
        // aggregate statements with a JOIN, fed line by line through the library API (no executor follows a join): only with a joined
        // file in which no join key occurs twice, so that every line has at most one partner - with two or more the unchanged tree
        // concatenates intermediate tables (open finding C11, pinned reproducer), which is not what these cases are about
        // groups of 15-70 values that are mostly -0.0 / 0.0 under PERCENTILE: which of several equal values is shown must not depend
        // on whether the group was sorted once or re-sorted at every refresh
        if rng.chance(1, 12) { let z = rng.chance(2, 3); return gen_percentile_case(rng, 15, 70, z); }
        if rng.chance(1, 6) {
            let (mut case, _t, sel, _shape) = gen_base(rng, &BaseCfg { shapes: &[Shape::JoinAggregate], allow_limit: false, allow_having: true, agg_distinct: true, order_insensitive_only: false, exact_data: true, min_lines: 3, max_lines: 30, not_null_column: false, big_rate: 0, big_lines: 0 });
            let key = sel.join.as_ref().map(|j| j.right.1.clone()).unwrap_or_else(|| "k".into());
            let joined = strs(&case, "joined");
            let mut kept: Vec<String> = Vec::new();
            if let (Ok(tables), Ok(ks)) = (eng::tables_from(case["tables"].as_str().unwrap_or("")), eng::parse(&format!("SELECT {} FROM u", key))) {
                let mut seen: Vec<crate::val::RV> = Vec::new();
                for l in joined {
                    match eng::exec_batch(&tables, &ks, std::slice::from_ref(&l)) {
                        Ok(r) if r.rows.len() == 1 && r.rows[0].len() == 1 => { let v = r.rows[0][0].clone(); if !seen.iter().any(|s| s.same(&v, 0.0)) { seen.push(v); kept.push(l); } }
                        Ok(r) if r.rows.is_empty() => kept.push(l),
                        _ => {}
                    }
                }
            }
            case["joined"] = json!(kept);
            case["unique_join_keys"] = json!(true);
            return case;
        }
        let (mut case, _t, mut sel, shape) = gen_base(rng, &BaseCfg { shapes: &[Shape::Plain, Shape::Distinct, Shape::Aggregate, Shape::Aggregate, Shape::Aggregate], allow_limit: false, allow_having: true, agg_distinct: true, order_insensitive_only: false, exact_data: true, min_lines: 3, max_lines: 30, not_null_column: false, big_rate: 100, big_lines: 500 });
        if shape == Shape::Aggregate && rng.chance(1, 3) { let keys = sel.group_by.clone().unwrap_or_default(); sel.projs.retain(|(e, _)| !keys.contains(e)); if sel.projs.is_empty() { sel.projs.push((E::Agg("count".into(), false, vec![E::Star]), None)); } sel.distinct = true; case["stmt"] = json!(sel.text(Paren::Full)); }
        case
    }

    fn check(&self, case: &J, obs: &mut Obs) -> Verdict {
        let base = match Base::from_case(case) { Ok(b) => b, Err(e) => return Verdict::Inconclusive(e) };
        let shape = if case["unique_join_keys"].as_bool() == Some(true) { "JoinAggregateUniqueKeys".to_owned() } else { case["shape"].as_str().unwrap_or("?").to_owned() };
        let p = match base.prepare("i") { Ok(p) => p, Err(e) => return Verdict::Inconclusive(format!("stmt: {}", e.show().chars().take(40).collect::<String>())) };
        let aggregate = p.stmt.is_aggregate();
        let feat = format!("{}{}{}{}", shape, if base.sql.contains("DISTINCT") { "+distinct" } else { "" }, if base.sql.contains(" HAVING ") { "+having" } else { "" }, if base.sql.contains(" OUTER JOIN ") { "+outer" } else { "" });
        obs.hit(&format!("shape:{}", feat));
        let (outs, err) = eng::exec_lines(&base.tables, &p.stmt, &base.lines, true, true);
        if let Some(eng::EngErr::Panic(pn)) = &err { return Verdict::Violated(vec![Violation::new(format!("incremental|{}|panic:{}", feat, pn.class()), pn.describe())]); }
        let upto = outs.len();
        let mut vs: Vec<Violation> = Vec::new();
        let mut shown = RowsOut::empty();
        let mut prev_batch = RowsOut::empty();
        let mut changes = 0;
        // big cases: the comparison with a fresh batch run is made at the first and last five lines and at every step-th line
        let step = (upto / 25).max(1);
        let mut prev_valid = true;
        for k in 1..=upto {
            if upto > 80 && !(k <= 5 || k + 5 > upto || k % step == 0) {
                if aggregate { if let Some(t) = &outs[k - 1].out { shown = t.clone(); } }
                prev_valid = false;
                continue;
            }
            if !prev_valid && !aggregate { prev_batch = match base.batch(&p, &base.lines[..k - 1]) { Ok(b) => b, Err(_) => break }; }
            prev_valid = true;
            obs.evals += 1;
            let batch = match base.batch(&p, &base.lines[..k]) { Ok(b) => b, Err(eng::EngErr::Panic(pn)) => { vs.push(Violation::new(format!("incremental|{}|batch-panic:{}", feat, pn.class()), pn.describe())); break; } Err(_) => { vs.push(Violation::new(format!("incremental|{}|batch-fails-where-incremental-succeeds", feat), format!("{:?}: batch over the first {} lines fails, feeding them one by one does not", base.sql, k))); break; } };
            let o = &outs[k - 1];
            if aggregate {
                if let Some(t) = &o.out { if !same_rows(t, &shown, 0.0) { changes += 1; } shown = t.clone(); }
                // bit for bit - except group-key columns: which of two equal key values (-0.0 / 0.0) represents the group depends on
                // which aggregate first had a value for it (open finding C04), so keys are compared by value
                let key_cols: Vec<usize> = match &p.stmt { sqlgrep::model::Statement::Aggregate(a) => a.aggregates.iter().enumerate().filter(|(_, x)| matches!(x.aggregate, sqlgrep::model::Aggregate::GroupKey(_))).map(|(i, _)| i).collect(), _ => vec![] };
                let same_tables = shown.rows.len() == batch.rows.len() && shown.rows.iter().zip(batch.rows.iter()).all(|(x, y)| x.len() == y.len() && x.iter().zip(y.iter()).enumerate().all(|(ci, (a, b2))| if key_cols.contains(&ci) { a.same(b2, 0.0) } else { a.identical(b2) }));
                if !same_tables {
                    let kind = if shown.rows.len() < batch.rows.len() { "rows-missing" } else if shown.rows.len() > batch.rows.len() { "rows-extra" } else { "cells-differ" };
                    vs.push(Violation::new(format!("incremental|{}|{}|{}", feat, if k == 1 { "first-refresh" } else { "later-refresh" }, kind), format!("{:?} after line {} of {}: shown {} ; batch over that prefix {}", base.sql, k, base.lines.len(), show_rows(&shown, 4), show_rows(&batch, 4))));
                    break;
                }
            } else {
                let emitted: Vec<_> = o.out.as_ref().map(|r| r.rows.clone()).unwrap_or_default();
                if !emitted.is_empty() { changes += 1; }
                let mut want = prev_batch.rows.clone(); want.extend(emitted.iter().cloned());
                let ok = want.len() == batch.rows.len() && want.iter().zip(batch.rows.iter()).all(|(a, b2)| a.len() == b2.len() && a.iter().zip(b2.iter()).all(|(x, y)| x.identical(y)));
                if !ok { vs.push(Violation::new(format!("incremental|{}|emitted-rows-are-not-the-batch-suffix", feat), format!("{:?} line {}: emitted {} rows, batch grew from {} to {} rows", base.sql, k, emitted.len(), prev_batch.rows.len(), batch.rows.len()))); break; }
            }
            if changes >= 2 { obs.sub(crate::rng::mix(&[base.tag, k as u64])); }
            prev_batch = batch;
        }
        // the incremental run failed at line upto+1: the batch run over that prefix must fail too
        if vs.is_empty() && err.is_some() && upto < base.lines.len() {
            if base.batch(&p, &base.lines[..upto + 1]).is_ok() { vs.push(Violation::new(format!("incremental|{}|incremental-fails-where-batch-succeeds", feat), format!("{:?}: {}", base.sql, err.unwrap().show()))); }
        }
        if vs.is_empty() { Verdict::Held } else { Verdict::Violated(vs) }
    }
}
