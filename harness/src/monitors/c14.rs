//! C14 — parsing is total: any text yields a statement or a located error, never a panic.

use serde_json::{json, Value as J};

use crate::ast::*;
use crate::gen::*;
use crate::rng::{fnv1a, Rng};
use crate::runner::*;
use crate::val::Ty;

pub struct C14;

/// documented bracket-nesting bound (deeper nesting is out of scope, DESIGN §7/C14)
pub const DEPTH_BOUND: usize = 256;

const VOCAB: &[&str] = &[
    "SELECT", "FROM", "WHERE", "GROUP", "BY", "AS", "AND", "OR", "CREATE", "TABLE", "NOT", "IS", "IN", "HAVING", "INNER", "OUTER", "JOIN", "ON",
    "EXTRACT", "DEFAULT", "DISTINCT", "CASE", "WHEN", "THEN", "ELSE", "END", "LIMIT", "NULL", "TRUE", "FALSE", "split", "match", "TRIM", "CONVERT",
    "MICROSECONDS", "INT", "REAL", "TEXT", "BOOLEAN", "TIMESTAMP", "INTERVAL", "int[]", "count", "sum", "min", "max", "avg", "stddev", "variance",
    "percentile", "bool_and", "bool_or", "array_agg", "string_agg", "least", "greatest", "abs", "sqrt", "pow", "length", "upper", "lower",
    "regexp_matches", "array", "array_unique", "now", "make_timestamp", "date_trunc", "x", "y", "t", "t.x", "line", "input", "epoch",
    // names whose upper-casing and lower-casing are not inverse to each other (long s, dotless i, ligatures, dotted capital I)
    "\u{17f}um", "m\u{131}n", "\u{fb06}ddev", "\u{fb01}rst", "\u{130}N", "coun\u{1e97}", "MA\u{d7}", "\u{212a}EY",
    // numerals that are not ASCII digits (numeric for Unicode), alone and glued to ASCII digits
    "8\u{ff10}", "1\u{b2}", "1\u{663}\u{663}\u{663}", "\u{ff11}\u{ff10}", "\u{b2}", "1\u{bd}", "2\u{2167}", "1\u{ff10}\u{ff10}\u{ff10}\u{ff10}", "1.\u{ff15}", "1e\u{ff15}",
    "(", ")", "[", "]", "{", "}", ",", ";", ":", "::", "=>", "=", "!=", "<", "<=", ">", ">=", "+", "-", "*", "/", ".", "^", "!", "--", "\\", "'", "'a'", "''",
    "0", "1", "42", "1.5", "1.2.3", "99999999999999999999", "9223372036854775807", "1e5", "\n", "\t", " ", "\u{a0}", "\u{e5}", "\u{1F600}",
];

pub fn valid_statement(rng: &mut Rng) -> String {
    let json = rng.chance(1, 2);
    let t = std_table(rng, "t", json, false);
    match rng.below(5) {
        0 => t.spec.text(),
        1 | 2 => {
            let cfg = StmtCfg { allow_limit: true, ..Default::default() };
            let mut s = gen_select(rng, &t.schema, &cfg);
            s.semicolon = rng.chance(1, 2);
            s.text(if rng.chance(1, 2) { Paren::Full } else { Paren::Minimal })
        }
        3 => {
            let cfg = AggCfg { allow_distinct: true, allow_limit: true, ..Default::default() };
            let mut s = gen_aggregate(rng, &t.schema, &cfg);
            s.semicolon = rng.chance(1, 2);
            s.text(Paren::Full)
        }
        _ => {
            let cfg = StmtCfg::default();
            let mut s = gen_select(rng, &t.schema, &cfg);
            s.join = Some(Join { outer: rng.chance(1, 2), table: "u".into(), file: "/nonexistent/u.log".into(), left: ("t".into(), "k".into()), right: ("u".into(), "k".into()) });
            s.text(Paren::Full)
        }
    }
}

fn split_words(text: &str) -> Vec<String> { text.split(' ').map(|s| s.to_owned()).collect() }

fn bad_definition(rng: &mut Rng) -> String {
    let options: &[&str] = &[
        "CREATE TABLE t ( line = '(' , line [ 1 ] => x INT ) ;",
        "CREATE TABLE t ( line = '[a-' , line [ 1 ] => x INT ) ;",
        "CREATE TABLE t ( line = split '(?P<' , line [ 1 ] => x INT ) ;",
        "CREATE TABLE t ( { } => x INT ) ;",
        "CREATE TABLE t ( { } => x INT , { .a } => y TEXT ) ;",
        "CREATE TABLE t ( { . } => x INT ) ;",
        "CREATE TABLE t ( { [ ] } => x INT ) ;",
        "CREATE TABLE t ( { .a [ 99999999999999999999 ] } => x INT ) ;",
        "CREATE TABLE t ( line = 'a' , line [ 99999999999999999999 ] => x INT ) ;",
        "CREATE TABLE t ( line = 'a' , line [ 1.5 ] => x INT ) ;",
        "CREATE TABLE t ( line = 'a' , line [ 1 ] => x INT DEFAULT 1.2.3 ) ;",
        "CREATE TABLE t ( line = 'a' , line [ 1 ] => x NOPE ) ;",
        "CREATE TABLE t ( line = 'a' , line [ 1 ] => x INT[ ) ;",
        "CREATE TABLE t ( line = 'a' , line [ 1 ] => x INT TRIM ) ;",
        "CREATE TABLE t ( line = 'a' , line [ 1 ] => x INT DEFAULT 'a' ) ;",
        "CREATE TABLE t ( line = 'a' , line [ 1 ] => x INT DEFAULT ) ;",
        "CREATE TABLE t ( line = 'a' , line [ 1 ] => x INT NOT ) ;",
        "CREATE TABLE t ( 'a(' => x INT ) ;",
        "CREATE TABLE t ( line [ 1 ] , => x INT ) ;",
        "CREATE TABLE t ( line [ 1 ] , line => x INT[] ) ;",
        "CREATE TABLE t ( ) ;",
        "CREATE TABLE t ( ) ; CREATE",
        "CREATE TABLE t ( ) ; CREATE TABLE",
        "CREATE TABLE",
        "SELECT string_agg ( x ) FROM t",
        "SELECT string_agg ( x , 1 ) FROM t",
        "SELECT string_agg ( ) FROM t",
        "SELECT percentile ( x ) FROM t",
        "SELECT percentile ( x , 1 ) FROM t",
        "SELECT percentile ( x , 0.5 , 2 ) FROM t",
        "SELECT count ( a , b ) FROM t",
        "SELECT count ( a + 1 ) FROM t",
        "SELECT count ( DISTINCT ) FROM t",
        "SELECT min ( ) FROM t",
        "SELECT max ( a , b , c ) FROM t",
        "SELECT sum ( a ) + sum ( b ) FROM t",
        "SELECT x FROM t HAVING count ( * ) > 1",
        "SELECT x FROM t GROUP BY x HAVING string_agg ( x ) = 'a'",
        "SELECT x FROM t GROUP BY x HAVING percentile ( x ) > 1",
        "SELECT avg ( x ) FROM t HAVING bool_and ( ) ",
        "SELECT x FROM t LIMIT 99999999999999999999",
        "SELECT x FROM t LIMIT 1.5",
        "SELECT x FROM t WHERE x = 99999999999999999999",
        "SELECT x FROM t WHERE x = 1.2.3",
        "SELECT x FROM t WHERE x IN ( 1 )",
        "SELECT x FROM t WHERE x IN 1",
        "SELECT x FROM t WHERE ( 1 , 2 )",
        "SELECT x :: nope FROM t",
        "SELECT x :: 1 FROM t",
        "SELECT EXTRACT ( FROM x ) FROM t",
        "SELECT EXTRACT ( nope FROM x ) FROM t",
        "SELECT CASE WHEN x THEN 1 END FROM t",
        "SELECT CASE END FROM t",
        "SELECT array [ ] FROM t",
        "SELECT x [ FROM t",
        "SELECT x . 1 FROM t",
        "SELECT 1 . x FROM t",
        "SELECT nosuchfunction ( x ) FROM t",
        "SELECT x FROM t INNER JOIN u :: 'f' ON a . x = b . y",
        "SELECT x FROM t INNER JOIN u :: 'f' ON t . x = v . y",
        "SELECT x FROM t INNER JOIN u ON t . x = u . y",
        "SELECT x FROM t WHERE x WHERE y",
        "SELECT x FROM t GROUP x",
        "SELECT x FROM t :: 5",
        "SELECT * , FROM t",
        "SELECT FROM t",
        "foo",
        "foo bar",
        "",
        ";",
        "SELECT",
        "SELECT x FROM",
        "SELECT 'unterminated FROM t",
        "SELECT x FROM t -- comment",
        "SELECT x FROM t --",
        "SELECT x - - 1 FROM t",
        "SELECT x FROM t WHERE x = - 1",
        "SELECT ^ x FROM t",
        "SELECT x ^ 2 FROM t",
        "SELECT ! x FROM t",
        "SELECT x ! y FROM t",
    ];
    let base = options[rng.below(options.len())].to_owned();
    if rng.chance(1, 3) {
        // squeeze the blanks out or vary them
        let words = split_words(&base);
        let mut out = String::new();
        for (i, w) in words.iter().enumerate() {
            if i > 0 { out.push_str(*rng.pick(&["", " ", "  ", "\n", "\t"])); }
            out.push_str(w);
        }
        out
    } else { base }
}

fn nest_case(rng: &mut Rng) -> String {
    let depth = *rng.pick(&[1usize, 2, 8, 31, 32, 33, 100, 200, 255, 256]);
    let depth = depth.min(DEPTH_BOUND);
    match rng.below(7) {
        0 => format!("SELECT {}x{} FROM t", "(".repeat(depth), ")".repeat(depth)),
        1 => format!("SELECT {}x FROM t", "(".repeat(depth)),
        2 => format!("SELECT x{} FROM t", "[1".repeat(depth)),
        3 => format!("SELECT {}x{} FROM t", "abs(".repeat(depth), ")".repeat(depth)),
        4 => format!("SELECT {}x FROM t", "- ".repeat(depth)),
        5 => format!("SELECT {}x FROM t", "NOT ".repeat(depth)),
        _ => format!("SELECT {}1{} FROM t", "CASE WHEN x THEN ".repeat(depth), " ELSE 0 END".repeat(depth)),
    }
}

fn lexeme_count(text: &str) -> usize {
    let mut n = 0;
    let mut in_word = false;
    for c in text.chars() {
        if c.is_alphanumeric() || c == '_' { if !in_word { n += 1; in_word = true; } }
        else { in_word = false; if !c.is_whitespace() { n += 1; } }
    }
    n
}

/// texts the property says must be REJECTED (with an error): an invalid regular expression as a pattern - named, inline or
/// split, read by a column or not, in the first or a later table -, an empty JSON path, an aggregate with the wrong number
/// of arguments, a number out of range
fn must_reject_case(rng: &mut Rng) -> (String, &'static str) {
    const BAD_RE: &[&str] = &["(", "[a-", "(?P<", "a{2,1}", "*a", "a)", "(?z)", "[[:nope:]]", "\\p{Nope}", "(?P<n>a)(?P<n>b)", "x(", "[z-a]", "(?i", "\\"];
    // certified by the regex library itself (the same one the engine compiles patterns with); none contains a quote or backslash,
    // so the string literal holds exactly these characters
    let certified: Vec<&str> = BAD_RE.iter().cloned().filter(|r| !r.contains('\\') && !r.contains('\'') && regex::Regex::new(r).is_err()).collect();
    let bad = *rng.pick(&certified);
    match rng.below(12) {
        0 => (format!("CREATE TABLE t ( line = '{}' , line [ 1 ] => x INT ) ;", bad), "invalid-pattern|read-by-a-column"),
        1 => (format!("CREATE TABLE t ( line = '([0-9]+)' , spare = '{}' , line [ 1 ] => x INT ) ;", bad), "invalid-pattern|not-read-by-a-column"),
        2 => (format!("CREATE TABLE t ( spare = '{}' , {{ . a }} => x INT ) ;", bad), "invalid-pattern|beside-json-columns"),
        3 => (format!("CREATE TABLE t ( spare = '{}' ) ;", bad), "invalid-pattern|table-without-columns"),
        4 => (format!("CREATE TABLE t ( '{}' => x INT ) ;", bad), "invalid-pattern|inline"),
        5 => (format!("CREATE TABLE t ( line = split '{}' , line [ 1 ] => x TEXT ) ;", bad), "invalid-pattern|split"),
        6 => (format!("CREATE TABLE ok ( line = '(a)' , line [ 1 ] => x TEXT ) ; CREATE TABLE t ( first = '(b)' , second = '{}' , first [ 1 ] => y TEXT ) ;", bad), "invalid-pattern|second-table-second-pattern"),
        7 => (format!("CREATE TABLE t ( {} => x INT ) ;", rng.pick(&["{ }", "{  }"])), "empty-json-path"),
        8 => (format!("SELECT {} FROM t", rng.pick(&["string_agg ( x )", "string_agg ( )", "percentile ( x )", "percentile ( x , 0.5 , 2 )", "count ( a , b )", "min ( )", "max ( a , b , c )", "sum ( )", "avg ( a , b )", "bool_and ( )", "array_agg ( a , b )", "stddev ( )"])), "aggregate-argument-count"),
        9 => (format!("SELECT k FROM t GROUP BY k HAVING {} > 1", rng.pick(&["percentile ( x )", "min ( )", "sum ( a , b )", "count ( a , b )"])), "aggregate-argument-count|having"),
        10 => (rng.pick(&["SELECT x FROM t LIMIT 99999999999999999999", "SELECT x FROM t WHERE x = 99999999999999999999", "SELECT x [ 99999999999999999999 ] FROM t", "SELECT 9223372036854775808 FROM t", "SELECT x FROM t WHERE x IN ( 1 , 18446744073709551616 )"]).to_string(), "number-out-of-range"),
        _ => (rng.pick(&["CREATE TABLE t ( line = 'a' , line [ 99999999999999999999 ] => x INT ) ;", "CREATE TABLE t ( { .a [ 99999999999999999999 ] } => x INT ) ;", "CREATE TABLE t ( line = '(a)' , line [ 1 ] => x INT DEFAULT 99999999999999999999 ) ;"]).to_string(), "number-out-of-range|definition"),
    }
}

fn check_must_reject(text: &str, why: &str, obs: &mut Obs) -> Verdict {
    obs.evals += 1;
    obs.hit(&format!("must-reject:{}", why.split('|').next().unwrap_or(why)));
    let r = if text.starts_with("CREATE") { crate::eng::tables_from(text).map(|_| ()) } else { crate::eng::parse(text).map(|_| ()) };
    match r {
        Err(crate::eng::EngErr::Err(_)) => { obs.nontrivial(); Verdict::Held }
        Err(crate::eng::EngErr::Panic(p)) => Verdict::Violated(vec![Violation::new(p.sig(), format!("{:?}: {}", text, p.describe()))]),
        Ok(()) => Verdict::Violated(vec![Violation::new(format!("must-reject|{}|accepted", why), format!("{:?} is accepted without an error", text))]),
    }
}

/// checks one text; returns violations (empty = held) and whether the parser proper was reached
fn check_text(text: &str, obs: &mut Obs) -> (Vec<Violation>, bool) {
    let mut vs = Vec::new();
    let mut reached = lexeme_count(text) >= 3;
    obs.evals += 1;
    let nl = text.matches('\n').count();
    let line_chars = |line: usize| text.split('\n').nth(line).map(|l| l.chars().count()).unwrap_or(0);
    let check_loc = |what: &str, line: usize, column: usize, vs: &mut Vec<Violation>| {
        if line > nl { vs.push(Violation::new("location|line-beyond-text", format!("{}: error line {} but the text has {} line breaks", what, line, nl))); }
        else if column > line_chars(line) + 1 { vs.push(Violation::new("location|column-beyond-line", format!("{}: error column {} but line {} has {} characters", what, column, line, line_chars(line)))); }
    };
    match guard(|| sqlgrep::parsing::parse(text)) {
        Err(p) => vs.push(Violation::new(p.sig(), format!("parse: {}", p.describe()))),
        Ok(Ok(_)) => { obs.hit("parse:ok"); }
        Ok(Err(err)) => {
            let msg = format!("{}", err);
            if msg.contains("Failed to parse integer") || msg.contains("Failed to parse float") || msg.contains("already has a dot") { reached = false; obs.hit("parse:tokenizer-error"); }
            else { obs.hit("parse:error"); }
            let loc = err.location().clone();
            check_loc("parse", loc.line, loc.column, &mut vs);
            match guard(|| loc.extract_near(text)) {
                Err(p) => vs.push(Violation::new(p.sig(), format!("extract_near: {}", p.describe()))),
                Ok(near) => { if !near.is_empty() { obs.hit("near:nonempty"); } }
            }
        }
    }
    match guard(|| sqlgrep::parsing::parse_into_tree(text)) {
        Err(p) => vs.push(Violation::new(p.sig(), format!("parse_into_tree: {}", p.describe()))),
        Ok(Ok(_)) => {}
        Ok(Err(err)) => {
            check_loc("parse_into_tree", err.location.line, err.location.column, &mut vs);
            if let Err(p) = guard(|| err.location.extract_near(text)) { vs.push(Violation::new(p.sig(), format!("extract_near(tree): {}", p.describe()))); }
        }
    }
    (vs, reached)
}

impl Monitor for C14 {
    fn id(&self) -> &'static str { "C14" }
    fn rule(&self) -> &'static str {
        "texts: random Unicode, token soups over the SQL vocabulary, generated valid statements with one token deleted/duplicated/swapped, every character prefix of generated valid statements, malformed definitions/aggregates/numbers, bracket nesting up to 256, must-reject texts (a pattern the regex crate refuses - named, inline, split, read by a column or not -, empty JSON path, aggregate argument counts, numbers out of range: an error is REQUIRED); parse and parse_into_tree under catch_unwind on an 8 MiB stack, error location and extract_near checked. Non-trivial = the text has >= 3 lexemes and is not rejected by the tokenizer's number check; distinct by text hash"
    }
    fn assumptions(&self) -> Vec<String> { vec!["nesting deeper than 256 brackets is out of scope (documented bound)".into(), "hangs are detected by the driver's watchdog, not in-process".into()] }
    fn sizes(&self, tier: Tier) -> Sizes {
        match tier { Tier::Quick => Sizes { cases: 60_000, min_nontrivial: 5_000 }, Tier::Thorough => Sizes { cases: 3_000_000, min_nontrivial: 100_000 } }
    }
    fn exhaustive_note(&self) -> Option<String> { Some("per generated statement: all character prefixes (kind=prefix)".into()) }

    fn generate(&self, rng: &mut Rng, _tier: Tier) -> J {
        match rng.below(12) {
            0 => {
                let pool: Vec<char> = "aZ09_ \t\n\r'\\\"(){}[],;:.=<>!+-*/^%&|#@~`?$\u{a0}\u{e5}\u{1F600}\u{301}\u{2028}\u{feff}\u{0}1\u{ff10}\u{b2}\u{663}\u{bd}".chars().collect();
                if rng.chance(1, 3) {
                    // long words of multi-byte characters at every byte alignment (an excerpt cut at a fixed number of bytes must not
                    // land inside a character): 1-3 words of 20-300 characters of 2-, 3- or 4-byte characters behind 0-3 ASCII ones,
                    // in statements that fail at or next to them
                    let word = |rng: &mut Rng| -> String {
                        let c = *rng.pick(&['\u{e5}', '\u{e5}', '\u{20ac}', '\u{1F600}', '\u{3b1}']);
                        let n = *rng.pick(&[20usize, 31, 32, 33, 40, 63, 64, 65, 100, 127, 128, 129, 255, 256, 300]);
                        let mut w: String = "xyz"[..rng.below(4)].to_string();
                        for i in 0..n { w.push(if rng.chance(1, 20) { 'a' } else { c }); if i == n / 2 && rng.chance(1, 4) { w.push('_'); } }
                        w
                    };
                    let (a, b2, c) = (word(rng), word(rng), word(rng));
                    let s = match rng.below(6) {
                        0 => format!("SELECT {} FROM", a),
                        1 => format!("SELECT {} {} FROM t", a, b2),
                        2 => format!("SELECT a FROM {} WHERE", a),
                        3 => format!("{} {} {}", a, b2, c),
                        4 => format!("SELECT '{}' , FROM {}", a, b2),
                        _ => format!("SELECT {} ( {} ,, ) FROM t WHERE {} = = 1", a, b2, c),
                    };
                    return json!({"kind": "unicode", "text": s});
                }
                let n = rng.below(40);
                let s: String = (0..n).map(|_| *rng.pick(&pool)).collect();
                json!({"kind": "unicode", "text": s})
            }
            1 | 2 => {
                let n = rng.below(16);
                let mut s = String::new();
                for i in 0..n { if i > 0 && rng.chance(4, 5) { s.push(' '); } s.push_str(*rng.pick(VOCAB)); }
                json!({"kind": "soup", "text": s})
            }
            3..=6 => {
                let base = valid_statement(rng);
                let mut words = split_words(&base);
                if !words.is_empty() {
                    let at = rng.below(words.len());
                    match rng.below(4) {
                        0 => { words.remove(at); }
                        1 => { let w = words[at].clone(); words.insert(at, w); }
                        2 => { let other = rng.below(words.len()); words.swap(at, other); }
                        _ => { words[at] = rng.pick(VOCAB).to_string(); }
                    }
                }
                json!({"kind": "mutate", "text": words.join(" ")})
            }
            7 => if rng.chance(2, 3) { json!({"kind": "prefix", "text": valid_statement(rng)}) } else {
                // a statement cut off after some token, spread over several lines, ending in blanks / an indented comment /
                // a line break: the error is reported at the end of the input and must still lie inside the text
                let words = split_words(&valid_statement(rng));
                let keep = 1 + rng.below(words.len().max(1));
                let mut text = String::new();
                for (i, w) in words.iter().take(keep).enumerate() {
                    if i > 0 { text.push_str(*rng.pick(&[" ", " ", " ", "\n", "\n    ", "\r\n", " -- c\n", "\t"])); }
                    text.push_str(w);
                }
                text.push_str(*rng.pick(&["", "\n", "\n          -- the rest is missing", "   -- c", "\n\t\t", "\n\n\n", " \n                              ", "\n--", "\r\n   \r\n"]));
                json!({"kind": "truncated-layout", "text": text})
            },
            8 => if rng.chance(1, 2) { json!({"kind": "valid", "text": valid_statement(rng)}) } else {
                // aggregate calls where an operand stands - inside CASE branches, IN lists, function arguments, array literals,
                // WHERE, GROUP BY keys, nested in another aggregate: valid or an error, never a crash of the lowering
                let mut words = split_words(&valid_statement(rng));
                let spots: Vec<usize> = words.iter().enumerate().filter(|(_, w)| matches!(w.as_str(), "k" | "g" | "i" | "r" | "b" | "s" | "ts" | "iv" | "ia" | "sa" | "NULL" | "TRUE") || w.chars().all(|c| c.is_ascii_digit()) && !w.is_empty()).map(|(i, _)| i).collect();
                let n = if spots.is_empty() { 0 } else { 1 + rng.below(2) };
                for _ in 0..n { let at = *rng.pick(&spots); words[at] = rng.pick(&["MAX ( i )", "COUNT ( * )", "SUM ( g )", "MIN ( k )", "COUNT ( DISTINCT i )", "PERCENTILE ( r , 0.5 )", "STRING_AGG ( k , ',' )", "AVG ( MAX ( i ) )", "ARRAY_AGG ( s )", "BOOL_AND ( b )", "( MAX ( i ) , 1 )", "COUNT ( )", "MAX ( )", "STDDEV ( r , r )"]).to_string(); }
                json!({"kind": "misplaced-aggregate", "text": words.join(" ")})
            },
            9 => if rng.chance(1, 2) { json!({"kind": "bad", "text": bad_definition(rng)}) } else { let (text, why) = must_reject_case(rng); json!({"kind": "must-reject", "text": text, "why": why}) },
            10 => if rng.chance(1, 2) { json!({"kind": "bad", "text": bad_definition(rng)}) } else {
                // names and keywords re-spelled with letters whose upper- and lower-casing are not inverse to each other
                // (long s, dotless i, Kelvin sign, ligatures): whatever a case-insensitive lookup makes of them, no crash
                let words: Vec<String> = split_words(&valid_statement(rng)).into_iter().map(|w| {
                    if !w.chars().all(|c| c.is_ascii_alphabetic() || c == '_') || !rng.chance(1, 3) { return w; }
                    match rng.below(5) {
                        0 => w.replacen(['s', 'S'], "\u{17f}", 1), 1 => w.replacen(['i', 'I'], "\u{131}", 1), 2 => w.replacen("st", "\u{fb06}", 1).replacen("ST", "\u{fb06}", 1),
                        3 => w.replacen(['k', 'K'], "\u{212a}", 1), _ => w.replacen(['i', 'I'], "\u{130}", 1),
                    }
                }).collect();
                json!({"kind": "unicode-casing", "text": words.join(" ")})
            },
            _ => json!({"kind": "nest", "text": nest_case(rng)}),
        }
    }

    fn check(&self, case: &J, obs: &mut Obs) -> Verdict {
        let Some(text) = case.get("text").and_then(|t| t.as_str()) else { return Verdict::Inconclusive("malformed-case".into()) };
        let kind = case.get("kind").and_then(|t| t.as_str()).unwrap_or("?");
        obs.hit(&format!("kind:{}", kind));
        let mut all = Vec::new();
        if kind == "must-reject" {
            // also the general checks (error position inside the text, excerpt) apply
            let (vs, _) = check_text(text, obs);
            if !vs.is_empty() { return Verdict::Violated(vs); }
            return check_must_reject(text, case["why"].as_str().unwrap_or("?"), obs);
        }
        if kind == "prefix" {
            let idx: Vec<usize> = text.char_indices().map(|(i, _)| i).chain(std::iter::once(text.len())).collect();
            for &i in &idx {
                let p = &text[..i];
                let (vs, reached) = check_text(p, obs);
                if reached { obs.sub(fnv1a(p.as_bytes())); }
                for mut v in vs { v.detail = format!("prefix of length {}: {}", i, v.detail); if !all.iter().any(|a: &Violation| a.sig == v.sig) { all.push(v); } }
            }
        } else {
            let (vs, reached) = check_text(text, obs);
            if reached { obs.nontrivial(); }
            all = vs;
        }
        if all.is_empty() { Verdict::Held } else { Verdict::Violated(all) }
    }
}

#[allow(dead_code)]
fn _unused(_: Ty) {}
