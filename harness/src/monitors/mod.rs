use crate::runner::Monitor;

pub mod c14;

pub fn by_id(id: &str) -> Option<Box<dyn Monitor>> {
    Some(match id {
        "C14" => Box::new(c14::C14),
        _ => return None,
    })
}

pub const ALL: &[&str] = &["C14"];
