//! C04 — GROUP BY: one row per group, every aggregate computed from that group's rows.

use serde_json::{json, Value as J};
use sqlgrep::data_model::Tables;
use sqlgrep::model::{Aggregate, AggregateStatement, AggregateStatementAggregation, ExpressionTree, SelectStatement, Statement};

use crate::ast::*;
use crate::eng;
use crate::fold::*;
use crate::gen::*;
use crate::monitors::c03::{run_select, NodeRun};
use crate::rng::Rng;
use crate::runner::*;
use crate::val::*;

pub struct C04;

pub enum Facts { Rows(Vec<RowFacts>), LowerLayerError(String) }

/// per admitted row passing WHERE: the engine-evaluated key tuple and aggregate arguments
pub fn row_facts(tables: &Tables, stmt: &AggregateStatement, lines: &[String]) -> Facts {
    let aggs = all_aggregates(stmt);
    let nkeys = stmt.group_by.as_ref().map(|g| g.len()).unwrap_or(0);
    let mut projections: Vec<(String, ExpressionTree)> = Vec::new();
    if let Some(g) = &stmt.group_by { for (i, k) in g.iter().enumerate() { projections.push((format!("k{}", i), k.clone())); } }
    let mut arg_slot: Vec<Option<usize>> = Vec::new();
    for (i, a) in aggs.iter().enumerate() {
        match a { Aggregate::GroupKey(_) => arg_slot.push(None), other => match aggregate_argument(other) { Some(e) => { arg_slot.push(Some(projections.len())); projections.push((format!("a{}", i), e)); } None => arg_slot.push(None) } }
    }
    // a constant keeps the projection list non-empty and the row non-NULL
    projections.push(("one".into(), ExpressionTree::Value(sqlgrep::model::Value::Int(1))));
    let sel = Statement::Select(SelectStatement { projections, from: stmt.from.clone(), filter: stmt.filter.clone(), ..Default::default() });
    let mut rows = Vec::new();
    for l in lines {
        match run_select(tables, &sel, l) {
            NodeRun::NoRow => {}
            NodeRun::Row(_, v) => rows.push(RowFacts { key: if nkeys == 0 { vec![RV::Null] } else { v[..nkeys].to_vec() }, args: arg_slot.iter().map(|s| s.map(|i| v[i].clone())).collect() }),
            NodeRun::Err(e) => return Facts::LowerLayerError(e),
            NodeRun::Panic(p) => return Facts::LowerLayerError(p.describe()),
        }
    }
    Facts::Rows(rows)
}

pub struct Mismatch { pub what: String, pub detail: String, pub agg_index: Option<usize> }

/// Is there an order-preserving assignment of the printed rows to the expected groups in which only optional groups
/// (HAVING undecidable) and groups of the recorded class "no aggregate has a value" are left without a row?
/// Returns the indices of the skipped groups of that class. Needed because rows need not show their key.
fn align(exp: &[ExpGroup], got: &eng::RowsOut, ncol: usize) -> Option<Vec<usize>> {
    let fits = |g: &ExpGroup, r: &Vec<RV>| r.len() == ncol && r.iter().zip(g.cells.iter()).all(|(v, c)| c.admits(&crate::sem::Outcome::Val(v.clone())));
    // memo[i][j]: can exp[i..] be aligned with rows[j..]? (None = not computed)
    let (n, m) = (exp.len(), got.rows.len());
    let mut memo: Vec<Vec<Option<bool>>> = vec![vec![None; m + 1]; n + 1];
    fn go(i: usize, j: usize, exp: &[ExpGroup], rows: &[Vec<RV>], memo: &mut Vec<Vec<Option<bool>>>, fits: &dyn Fn(&ExpGroup, &Vec<RV>) -> bool) -> bool {
        if let Some(v) = memo[i][j] { return v; }
        let r = if i == exp.len() { j == rows.len() } else {
            let g = &exp[i];
            let skippable = g.keep != Keep::Yes || g.no_aggregate_has_a_value;
            (g.keep != Keep::No && j < rows.len() && fits(g, &rows[j]) && go(i + 1, j + 1, exp, rows, memo, fits)) || (skippable && go(i + 1, j, exp, rows, memo, fits))
        };
        memo[i][j] = Some(r);
        r
    }
    if !go(0, 0, exp, &got.rows, &mut memo, &fits) { return None; }
    // walk one successful alignment, preferring to give a row to every group
    let (mut i, mut j, mut skipped) = (0, 0, Vec::new());
    while i < n {
        let g = &exp[i];
        if g.keep != Keep::No && j < m && fits(g, &got.rows[j]) && go(i + 1, j + 1, exp, &got.rows, &mut memo, &fits) { i += 1; j += 1; }
        else { if g.keep == Keep::Yes && g.no_aggregate_has_a_value { skipped.push(i); } i += 1; }
    }
    Some(skipped)
}

/// compares the engine's table with the expectation; returns the first mismatches
pub fn compare_table(stmt: &AggregateStatement, exp: &[ExpGroup], got: &eng::RowsOut) -> Vec<Mismatch> {
    let mut out = Vec::new();
    let ncol = stmt.aggregates.len();
    if let Some(skipped) = align(exp, got, ncol) {
        let names: Vec<String> = stmt.aggregates.iter().map(|a| a.name.clone()).collect();
        if !got.rows.is_empty() && got.columns != names { out.push(Mismatch { what: "column-names".into(), detail: format!("columns {:?}, statement says {:?}", got.columns, names), agg_index: None }); }
        for i in skipped { out.push(Mismatch { what: "missing-group|no-aggregate-has-a-value".into(), detail: format!("group {} ({} rows) has no row in the result ({} rows printed)", show_row(&exp[i].key), exp[i].rows, got.rows.len()), agg_index: None }); }
        return out;
    }
    let names: Vec<String> = stmt.aggregates.iter().map(|a| a.name.clone()).collect();
    if !got.rows.is_empty() && got.columns != names { out.push(Mismatch { what: "column-names".into(), detail: format!("columns {:?}, statement says {:?}", got.columns, names), agg_index: None }); }
    let mut gi = 0;
    for g in exp {
        if g.keep == Keep::No { continue; }
        let row = got.rows.get(gi);
        let matches_here = row.map(|r| r.len() == ncol && r.iter().zip(g.cells.iter()).all(|(v, c)| c.admits(&crate::sem::Outcome::Val(v.clone())))).unwrap_or(false);
        if matches_here { gi += 1; continue; }
        if g.keep == Keep::Maybe { continue; }
        // required group: find out what is wrong with the row at this position
        match row {
            None => out.push(Mismatch { what: missing_group_class(stmt, g), detail: format!("group {} ({} rows) has no row in the result ({} rows printed)", show_row(&g.key), g.rows, got.rows.len()), agg_index: None }),
            Some(r) if r.len() != ncol => out.push(Mismatch { what: "row-width".into(), detail: format!("row {} has {} cells for {} columns", gi, r.len(), ncol), agg_index: None }),
            Some(r) => {
                // is the row at this position simply the next group (this one is absent)?
                let is_next = exp.iter().skip_while(|x| !std::ptr::eq(*x, g)).skip(1).filter(|x| x.keep != Keep::No).any(|x| r.iter().zip(x.cells.iter()).all(|(v, c)| c.admits(&crate::sem::Outcome::Val(v.clone()))));
                if is_next { out.push(Mismatch { what: missing_group_class(stmt, g), detail: format!("group {} ({} rows) has no row in the result", show_row(&g.key), g.rows), agg_index: None }); continue; }
                for (ci, (v, c)) in r.iter().zip(g.cells.iter()).enumerate() {
                    if !c.admits(&crate::sem::Outcome::Val(v.clone())) {
                        let kind = aggregate_kind(&stmt.aggregates[ci].aggregate);
                        let what = if kind == "key" { "key-or-order".to_string() } else { format!("cell|{}|{}", kind, g.situations[ci]) };
                        out.push(Mismatch { what, detail: format!("group {} column {} ({}): got {}, accepted {}", show_row(&g.key), ci, stmt.aggregates[ci].name, v.show(), c.show()), agg_index: Some(ci) });
                    }
                }
            }
        }
        gi += 1;
        if out.len() >= 6 { break; }
    }
    if out.is_empty() && gi < got.rows.len() { out.push(Mismatch { what: "extra-group".into(), detail: format!("{} rows printed, {} groups accounted for; first extra row {}", got.rows.len(), gi, show_row(&got.rows[gi])), agg_index: None }); }
    out
}

/// a required group without a row: is it the recorded class "no aggregate of the statement has a value for this group"?
fn missing_group_class(_stmt: &AggregateStatement, g: &ExpGroup) -> String {
    if g.no_aggregate_has_a_value { "missing-group|no-aggregate-has-a-value".into() } else { "missing-group".into() }
}

pub fn clone_agg(a: &AggregateStatementAggregation) -> AggregateStatementAggregation {
    AggregateStatementAggregation { name: a.name.clone(), aggregate: a.aggregate.clone(), transform: a.transform.clone() }
}

/// the same statement with only the key projections and one aggregate kept
fn reduced(stmt: &AggregateStatement, keep: usize) -> AggregateStatement {
    AggregateStatement {
        aggregates: stmt.aggregates.iter().enumerate().filter(|(i, a)| *i == keep || matches!(a.aggregate, Aggregate::GroupKey(_))).map(|(_, a)| clone_agg(a)).collect(),
        from: stmt.from.clone(), filename: None, filter: stmt.filter.clone(), group_by: stmt.group_by.clone(), having: None, join: None, limit: None, distinct: false,
    }
}

pub fn arg_tag(stmt: &AggregateStatement, rows: &[RowFacts], i: usize) -> String {
    let _ = stmt;
    rows.iter().filter_map(|r| r.args.get(i).and_then(|a| a.as_ref()).and_then(|v| v.ty())).next().map(|t| t.tag()).unwrap_or_else(|| "NULL-only".into())
}

impl Monitor for C04 {
    fn id(&self) -> &'static str { "C04" }
    fn rule(&self) -> &'static str {
        "case = standard typed table + 5-40 lines (1-6 groups; one case in 200: 400-1600 lines over 1-300 groups, per-column NULL rates that make all-NULL and single-row groups common, TEXT/TIMESTAMP arguments) + generated aggregate statement (1-4 aggregates in any order mixed with key expressions, with/without GROUP BY, WHERE, HAVING with hidden aggregates, agg op const, p in {0, .25, .5, .9, 1}). The engine's per-row key and argument values (SELECT keys, args WHERE filter) are folded by the reference; the batch result table must match group by group (order, one row per group, every cell in its accept set, HAVING). A failing statement is re-run with each aggregate alone to name the aggregate at fault. Non-trivial = >= 2 groups or an all-NULL group, and >= 1 aggregate besides keys; distinct by case hash"
    }
    fn assumptions(&self) -> Vec<String> { vec!["per-row expression values are taken from the engine (C03 checks them)".into(), "accept sets of Appendix A.5 (AVG over INT as REAL mean or truncated INT, population or sample variance, percentile between lower and upper nearest rank)".into()] }
    fn sizes(&self, tier: Tier) -> Sizes { match tier { Tier::Quick => Sizes { cases: 12_000, min_nontrivial: 4_000 }, Tier::Thorough => Sizes { cases: 600_000, min_nontrivial: 200_000 } } }

    fn generate(&self, rng: &mut Rng, _tier: Tier) -> J {
        // groups of 100-400 values under PERCENTILE at fractions for which neighbouring rank rules differ
        if rng.chance(1, 40) { let z = rng.chance(1, 4); return crate::monitors::relcommon::gen_percentile_case(rng, 100, 400, z); }
        let js = rng.chance(2, 3);
        let allc = rng.below(2) == 0;
        let t = std_table(rng, "t", js, allc);
        let mut dc = DataCfg::random(rng, t.schema.cols.len(), false);
        let mut n = 5 + rng.below(36);
        // size thresholds: hundreds of groups, or hundreds of values in one group
        if rng.chance(1, 200) { n = 400 + rng.below(1200); dc.keys = *rng.pick(&[1usize, 2, 40, 300]); }
        if rng.chance(1, 12) { dc.zeros = true; }
        // integers that are distinct but equal as doubles, REALs one rounding step apart (as arguments and as keys)
        let big_ints = n <= 40 && rng.chance(1, 10);
        if big_ints { dc.big_ints = true; }
        let ulp_reals = !big_ints && n <= 40 && rng.chance(1, 12);
        if ulp_reals { dc.ulp_reals = true; }
        let lines = std_lines(rng, &t, n, &dc);
        let mut sel = gen_aggregate(rng, &t.schema, &AggCfg::default());
        if big_ints {
            for _ in 0..20 { if !crate::gen::big_int_risky(&sel) { break; } sel = gen_aggregate(rng, &t.schema, &AggCfg::default()); }
            if crate::gen::big_int_risky(&sel) || rng.chance(1, 3) {
                sel = Sel { from: "t".into(), group_by: Some(vec![col("k")]), ..Default::default() };
                sel.projs = vec![(col("k"), None), (E::Agg("min".into(), false, vec![col("i")]), None), (E::Agg("max".into(), false, vec![col("i")]), Some("hi".into())), (E::Agg("count".into(), true, vec![col("i")]), None), (E::Agg("percentile".into(), false, vec![col("i"), E::Real(0.5)]), None)];
                if rng.chance(1, 2) { sel.having = Some(bin(*rng.pick(&["=", ">=", "<", "!="]), E::Agg(rng.pick(&["max", "min"]).to_string(), false, vec![col("i")]), int(*rng.pick(&[9007199254740993i64, 9007199254740992, 4611686018427387905, 36028797018963969, -9007199254740993])))); }
            }
            if rng.chance(1, 3) { crate::gen::rekey(&mut sel, "i"); }
        }
        if ulp_reals && t.schema.ty_of("r").is_some() && rng.chance(1, 2) { crate::gen::rekey(&mut sel, "r"); }
        // DISTINCT over the result table: rows repeat when the keys are not shown
        if rng.chance(1, 6) { sel.distinct = true; if rng.chance(1, 2) { let keys = sel.group_by.clone().unwrap_or_default(); sel.projs.retain(|(e, _)| !keys.contains(e)); if sel.projs.is_empty() { sel.projs.push((E::Agg("count".into(), false, vec![E::Star]), None)); } } }
        json!({"tables": t.spec.text(), "stmt": sel.text(Paren::Full), "lines": lines})
    }

    fn check(&self, case: &J, obs: &mut Obs) -> Verdict {
        let tables = match eng::tables_from(case["tables"].as_str().unwrap_or("")) { Ok(t) => t, Err(e) => return Verdict::Inconclusive(format!("table: {}", e.show())) };
        let text = case["stmt"].as_str().unwrap_or("");
        let lines: Vec<String> = case["lines"].as_array().map(|a| a.iter().filter_map(|x| x.as_str().map(|s| s.to_owned())).collect()).unwrap_or_default();
        let stmt = match eng::parse(text) { Ok(s) => s, Err(eng::EngErr::Panic(p)) => return Verdict::Violated(vec![Violation::new(format!("agg|stmt|{}", p.sig()), p.describe())]), Err(e) => return Verdict::Inconclusive(format!("stmt: {}", e.show().chars().take(50).collect::<String>())) };
        let Statement::Aggregate(agg) = &stmt else { return Verdict::Inconclusive("not-an-aggregate".into()) };
        let rows = match row_facts(&tables, agg, &lines) { Facts::Rows(r) => r, Facts::LowerLayerError(_) => return Verdict::Inconclusive("lower-layer-error".into()) };
        let exp = match expected_table(agg, &rows) {
            Ok(e) => e,
            Err(FoldError::Undecidable(w)) => return Verdict::Inconclusive(format!("undecidable: {}", w)),
            Err(FoldError::StatementMustFail(why)) => {
                return match eng::exec_batch(&tables, &stmt, &lines) {
                    Err(eng::EngErr::Err(_)) => { obs.hit("stmt:error-reported"); Verdict::Held }
                    Err(eng::EngErr::Panic(p)) => Verdict::Violated(vec![Violation::new(format!("agg|no-value:{}|panic:{}", why, p.class()), format!("{:?}: {}", text, p.describe()))]),
                    Ok(out) => Verdict::Violated(vec![Violation::new(format!("agg|no-value:{}|no-error", why), format!("{:?} has no value ({}), but printed {}", text, why, out.show().chars().take(200).collect::<String>()))]),
                };
            }
        };
        // DISTINCT: duplicates of earlier result rows are removed - decidable when every cell is a single value
        let exp = if agg.distinct {
            if exp.iter().any(|g| g.keep == Keep::Maybe || (g.keep == Keep::Yes && g.cells.iter().any(|c| !c.singleton_value()))) { return Verdict::Inconclusive("distinct-over-ambiguous-cells".into()); }
            let mut seen: Vec<Vec<RV>> = Vec::new();
            let mut cellless: Vec<Vec<RV>> = Vec::new();
            let mut out = Vec::new();
            for mut g in exp {
                if g.keep == Keep::Yes {
                    let row: Vec<RV> = g.cells.iter().map(|c| c.vals[0].clone()).collect();
                    // (a group covered by the open finding - no aggregate has a value - may print no row: whether a later equal
                    // row is then the first occurrence or a duplicate is not decidable here)
                    if g.no_aggregate_has_a_value { if seen.iter().any(|s| tuple_eq(s, &row)) { g.keep = Keep::No; } else { cellless.push(row); } out.push(g); continue; }
                    if cellless.iter().any(|s| tuple_eq(s, &row)) { return Verdict::Inconclusive("distinct-after-a-group-without-values".into()); }
                    if seen.iter().any(|s| tuple_eq(s, &row)) { g.keep = Keep::No; }
                    // equal only up to rounding (two REAL results a few ulps apart): whether they are duplicates depends on the arithmetic, not decidable here
                    else if seen.iter().any(|s| s.iter().zip(row.iter()).all(|(a, b2)| a.same(b2, 1e-9))) { return Verdict::Inconclusive("distinct-over-nearly-equal-reals".into()); }
                    else { seen.push(row); }
                }
                out.push(g);
            }
            obs.hit("distinct");
            out
        } else { exp };
        let ngroups = exp.len();
        let real_aggs = agg.aggregates.iter().filter(|a| !matches!(a.aggregate, Aggregate::GroupKey(_))).count();
        let any_all_null = exp.iter().any(|g| g.situations.iter().any(|s| *s == "all-null"));
        if (ngroups >= 2 || any_all_null) && real_aggs >= 1 { obs.nontrivial(); }
        for (i, a) in agg.aggregates.iter().enumerate() {
            let k = aggregate_kind(&a.aggregate);
            if k == "key" { continue; }
            let tag = arg_tag(agg, &rows, i);
            for g in &exp { obs.hit(&format!("agg:{}({})/{}", k, tag, g.situations[i])); }
        }
        if agg.having.is_some() { obs.hit("having"); }
        if agg.group_by.is_none() { obs.hit("no-group-by"); }

        let mut vs: Vec<Violation> = Vec::new();
        match eng::exec_batch(&tables, &stmt, &lines) {
            Err(e) => {
                let kind = match &e { eng::EngErr::Panic(p) => format!("panic:{}", p.class()), eng::EngErr::Err(m) => format!("error:{}", m.chars().filter(|c| !c.is_ascii_digit()).take(40).collect::<String>()) };
                vs.extend(localise(&tables, agg, &rows, &lines, obs, &kind, &format!("{:?}: {}", text, e.show())));
            }
            Ok(got) => {
                let mm = compare_table(agg, &exp, &got);
                if !mm.is_empty() && mm.iter().all(|m| m.what == "missing-group|no-aggregate-has-a-value") {
                    vs.push(Violation::new("agg|missing-group|no-aggregate-has-a-value", format!("{:?}: {}", text, mm[0].detail)));
                } else if !mm.is_empty() {
                    let first = mm.iter().find(|m| m.what != "missing-group|no-aggregate-has-a-value").unwrap();
                    vs.extend(localise(&tables, agg, &rows, &lines, obs, &first.what, &format!("{:?}: {}", text, mm.iter().map(|m| m.detail.clone()).collect::<Vec<_>>().join(" ; "))));
                }
            }
        }
        if vs.is_empty() { Verdict::Held } else { Verdict::Violated(vs) }
    }
}

/// re-runs the statement with each aggregate alone (keys kept, HAVING dropped) and signs the failure by the aggregates at fault
fn localise(tables: &Tables, agg: &AggregateStatement, rows: &[RowFacts], lines: &[String], obs: &mut Obs, what: &str, detail: &str) -> Vec<Violation> {
    let mut alone: Vec<String> = Vec::new();
    for (i, a) in agg.aggregates.iter().enumerate() {
        if matches!(a.aggregate, Aggregate::GroupKey(_)) { continue; }
        let red = reduced(agg, i);
        let red_index = red.aggregates.iter().position(|x| !matches!(x.aggregate, Aggregate::GroupKey(_))).unwrap_or(0);
        // facts for the reduced statement: same rows, the one aggregate's arguments
        let rrows: Vec<RowFacts> = rows.iter().map(|r| RowFacts { key: r.key.clone(), args: red.aggregates.iter().enumerate().map(|(j, _)| if j == red_index { r.args[i].clone() } else { None }).collect() }).collect();
        let Ok(exp) = expected_table(&red, &rrows) else { continue };
        let stmt = Statement::Aggregate(red);
        obs.evals += 1;
        let bad = match eng::exec_batch(tables, &stmt, lines) {
            Err(e) => Some(match e { eng::EngErr::Panic(p) => format!("panic:{}", p.class()), eng::EngErr::Err(_) => "error".into() }),
            Ok(got) => { let Statement::Aggregate(r) = &stmt else { unreachable!() }; compare_table(r, &exp, &got).into_iter().find(|m| m.what != "missing-group|no-aggregate-has-a-value").map(|m| m.what) }
        };
        if let Some(b) = bad {
            let (kind, tag) = (aggregate_kind(&a.aggregate), arg_tag(agg, rows, i));
            // recorded finding: STDDEV / VARIANCE over an INTERVAL argument never has a value (the group shows NULL, vanishes when
            // it was the only aggregate, or the square of the interval leaves the 64-bit range) - one signature for all its faces;
            // a panic or a value in the wrong row is not part of it
            if (kind == "stddev" || kind == "variance") && tag == "Iv" && (b == "error" || b.starts_with("missing-group") || b.starts_with("cell|stddev|") || b.starts_with("cell|variance|")) {
                alone.push("stddev-or-variance(Iv)>never-has-a-value".into());
            } else {
                alone.push(format!("{}({})>{}", kind, tag, b));
            }
        }
    }
    alone.sort(); alone.dedup();
    if !alone.is_empty() {
        return alone.into_iter().map(|a| Violation::new(format!("agg|alone|{}", a), detail.to_owned())).collect();
    }
    // needs the combination: name the aggregate kinds involved
    let mut kinds: Vec<&str> = agg.aggregates.iter().map(|a| aggregate_kind(&a.aggregate)).filter(|k| *k != "key").collect();
    kinds.sort(); kinds.dedup();
    let extras = format!("{}{}", if agg.having.is_some() { "+having" } else { "" }, if agg.group_by.is_none() { "+no-group-by" } else { "" });
    vec![Violation::new(format!("agg|combination|{}{}|{}", kinds.join("+"), extras, what), detail.to_owned())]
}
