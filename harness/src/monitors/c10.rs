//! C10 — follow mode delivers every completed line exactly once, in order.
//! The real `FollowFileIterator` reads a real file; the `follow_eof` hook fires exactly when the reader saw
//! EOF without a complete line, and the harness then performs the next scripted action (append / idle / stop).

use std::cell::RefCell;
use std::collections::HashSet;
use std::fs::{File, OpenOptions};
use std::io::{BufReader, Seek, SeekFrom, Write};
use std::rc::Rc;
use std::sync::atomic::{AtomicBool, AtomicUsize, Ordering};
use std::sync::Arc;

use serde_json::{json, Value as J};
use sqlgrep::helpers::FollowFileIterator;
use sqlgrep::verif_hooks::{set_follow_eof, FollowAction};

use crate::eng;
use crate::rng::{fnv1a, Rng};
use crate::runner::*;

pub struct C10 { pub interleavings: RefCell<HashSet<u64>>, pub counters: RefCell<[u64; 4]> }

impl C10 { pub fn new() -> C10 { C10 { interleavings: RefCell::new(HashSet::new()), counters: RefCell::new([0; 4]) } } }

pub struct RunStats { pub eof_events: u64, pub carry_overs: u64, pub mid_char_polls: u64, pub lens_hash: u64 }

/// expected deliveries: the '\n'-terminated lines of `content` (from `start`), without the newline
pub fn expected_lines(content: &[u8], start: usize) -> Vec<Vec<u8>> {
    let mut out = Vec::new();
    let mut cur = Vec::new();
    for &b in &content[start..] {
        if b == b'\n' { out.push(std::mem::take(&mut cur)); } else { cur.push(b); }
    }
    out
}

/// Runs the real iterator over a scratch file under a hook-driven schedule.
/// `chunks`: byte chunks appended one per EOF event (after `idles[i]` idle polls); `pre`: bytes in the file
/// before the reader is constructed; `from_end`: the reader is positioned at the end of `pre` first.
pub fn run_schedule(pre: &[u8], chunks: &[Vec<u8>], idles: &[usize], cap: usize, from_end: bool, tag: u64) -> (Vec<String>, RunStats) {
    let path = eng::scratch_dir().join(format!("c10-{}.log", tag));
    std::fs::write(&path, pre).expect("scratch write");
    let mut reader_file = File::open(&path).expect("open");
    if from_end { reader_file.seek(SeekFrom::End(0)).expect("seek"); }
    let writer = OpenOptions::new().append(true).open(&path).expect("open append");
    struct Script { writer: File, chunks: Vec<Vec<u8>>, idles: Vec<usize>, next: usize, idle_left: usize, written: Vec<u8>, lens: Vec<u64>, eof: u64, carry: u64, mid: u64, started: bool }
    let script = Rc::new(RefCell::new(Script { writer, chunks: chunks.to_vec(), idles: idles.to_vec(), next: 0, idle_left: 0, written: pre.to_vec(), lens: Vec::new(), eof: 0, carry: 0, mid: 0, started: false }));
    let s2 = script.clone();
    set_follow_eof(Some(Box::new(move || {
        let mut s = s2.borrow_mut();
        s.eof += 1;
        let len = s.written.len() as u64;
        s.lens.push(len);
        if !s.written.is_empty() && *s.written.last().unwrap() != b'\n' { s.carry += 1; }
        if !s.started { s.started = true; s.idle_left = s.idles.first().copied().unwrap_or(0); }
        if s.idle_left > 0 { s.idle_left -= 1; return FollowAction::Continue; }
        if s.next < s.chunks.len() {
            let chunk = s.chunks[s.next].clone();
            s.writer.write_all(&chunk).expect("append");
            s.writer.flush().ok();
            s.written.extend_from_slice(&chunk);
            // the reader's next poll finds a file that ends inside a multi-byte character
            if let Err(e) = std::str::from_utf8(&s.written) { if e.error_len().is_none() { s.mid += 1; } }
            s.next += 1;
            let n = s.next;
            s.idle_left = s.idles.get(n).copied().unwrap_or(0);
            FollowAction::Continue
        } else {
            FollowAction::Stop
        }
    })));
    let reader = BufReader::with_capacity(cap.max(1), reader_file);
    let mut delivered = Vec::new();
    // bound the number of deliveries so that a duplicating reader cannot run forever
    let bound = pre.len() + chunks.iter().map(|c| c.len()).sum::<usize>() + 16;
    let result = guard(|| {
        for line in FollowFileIterator::new(reader) {
            delivered.push(line);
            if delivered.len() > bound { break; }
        }
    });
    set_follow_eof(None);
    let _ = std::fs::remove_file(&path);
    if let Err(p) = result { delivered.push(format!("\u{0}PANIC {}", p.describe())); }
    let s = script.borrow();
    let mut lens_bytes = Vec::new();
    for l in &s.lens { lens_bytes.extend_from_slice(&l.to_le_bytes()); }
    lens_bytes.extend_from_slice(&(cap as u64).to_le_bytes());
    (delivered, RunStats { eof_events: s.eof, carry_overs: s.carry, mid_char_polls: s.mid, lens_hash: fnv1a(&lens_bytes) })
}

fn cut(content: &[u8], cuts: &[usize]) -> Vec<Vec<u8>> {
    let mut out = Vec::new();
    let mut prev = 0;
    for &c in cuts { if c > prev && c < content.len() { out.push(content[prev..c].to_vec()); prev = c; } }
    if prev < content.len() { out.push(content[prev..].to_vec()); }
    out
}

fn judge(content: &[u8], start: usize, delivered: &[String], stats: &RunStats, what: &str) -> Option<Violation> {
    let want = expected_lines(content, start);
    let got: Vec<Vec<u8>> = delivered.iter().map(|s| s.as_bytes().to_vec()).collect();
    if got == want { return None; }
    let mid = if stats.mid_char_polls > 0 { "poll-inside-multibyte-char" } else { "plain" };
    let kind = if delivered.iter().any(|d| d.starts_with("\u{0}PANIC")) { "panic" }
        else if got.len() < want.len() && got[..] == want[..got.len()] { "lines-lost-at-end" }
        else if got.len() > want.len() && got[..want.len()] == want[..] { "extra-delivery" }
        else if got.len() == want.len() { "content-differs" }
        else { "sequence-differs" };
    let show = |v: &Vec<Vec<u8>>| format!("{:?}", v.iter().take(8).map(|l| String::from_utf8_lossy(&l[..l.len().min(40)]).into_owned()).collect::<Vec<_>>());
    Some(Violation::new(format!("follow|{}|{}", mid, kind), format!("{}: delivered {} lines {} ; expected {} lines {}", what, got.len(), show(&got), want.len(), show(&want))))
}

const ALPHABET: &[&str] = &["a", "\u{e9}", "\u{1F600}", "\n"];
// (the replacement character U+FFFD and NUL are ordinary characters of a line: they are part of the random contents)

impl C10 {
    fn note(&self, st: &RunStats) {
        self.interleavings.borrow_mut().insert(st.lens_hash);
        let mut c = self.counters.borrow_mut();
        c[0] += st.eof_events; c[1] += st.carry_overs; c[2] += st.mid_char_polls; c[3] += 1;
    }

    fn check_small(&self, content: &str, cap: usize, obs: &mut Obs) -> Verdict {
        let bytes = content.as_bytes();
        let n = bytes.len();
        let mut vs: Vec<Violation> = Vec::new();
        let masks: u64 = if n <= 1 { 1 } else { 1u64 << (n - 1) };
        for mask in 0..masks {
            let cuts: Vec<usize> = (1..n).filter(|i| mask & (1 << (i - 1)) != 0).collect();
            let chunks = cut(bytes, &cuts);
            let tag = fnv1a(format!("{}|{}|{}", content, cap, mask).as_bytes());
            let (delivered, st) = run_schedule(b"", &chunks, &[], cap, false, tag);
            obs.evals += 1;
            self.note(&st);
            if expected_lines(bytes, 0).len() >= 2 && st.carry_overs >= 1 { obs.sub(tag); }
            if let Some(v) = judge(bytes, 0, &delivered, &st, &format!("content {:?} cuts {:?} cap {}", content, cuts, cap)) { if !vs.iter().any(|x| x.sig == v.sig) { vs.push(v); } }
        }
        obs.hit("small-scope");
        if vs.is_empty() { Verdict::Held } else { Verdict::Violated(vs) }
    }
}

fn random_content(rng: &mut Rng, tier: Tier) -> String {
    let nlines = 1 + rng.below(8);
    let mut s = String::new();
    for _ in 0..nlines {
        let len = match rng.below(10) { 0 => 0, 1 if tier == Tier::Thorough => 8000 + rng.below(60000), 2 => 100 + rng.below(400), _ => rng.below(24) };
        // characters that tools like to "clean up" at the start of a line or file: byte-order mark, blanks, NUL, '#', ';'
        if rng.chance(1, 8) { s.push_str(*rng.pick(&["\u{feff}", "\u{feff}\u{feff}", " ", "\t", "\u{0}", "#", ";", "--", "\u{200b}"])); }
        for _ in 0..len {
            s.push_str(match rng.below(16) { 0 => "\u{e9}", 1 => "\u{1F600}", 2 => "\u{20ac}", 3 => " ", 4 => "\r", 5 => "\u{fffd}", 6 => "\u{0}", 7 => "\u{feff}", 8 => "\t", _ => "x" });
        }
        // ... or at its end
        if rng.chance(1, 10) { s.push_str(*rng.pick(&[" ", "\t", "\r\r", "\u{0}", "\\", "\u{feff}"])); }
        s.push('\n');
    }
    if rng.chance(1, 2) { s.pop(); if rng.chance(1, 2) { s.push_str("tail\u{e9}"); } }
    s
}

/// "first\n" + one line of `len` characters + "\n" + two short lines, appended in a handful of chunks that also split the long line
fn long_case(len: usize, variant: usize) -> J {
    let prefix = "first line\n";
    let suffix = "\nafter the long one\nlast\u{e9}\n";
    let p = prefix.len();
    let cuts = match variant % 3 { 0 => vec![p + len / 3, p + len - 1, p + len + 1], 1 => vec![5, p, p + 1, p + len / 2, p + len], _ => vec![p + len + 3] };
    json!({"kind": "schedule", "long": {"prefix": prefix, "len": len, "suffix": suffix}, "cuts": cuts, "idles": [0, 1, 0, 0, 2, 0, 0], "cap": if variant % 2 == 0 { 8192 } else { 64 }, "pre": ""})
}

impl Monitor for C10 {
    fn id(&self) -> &'static str { "C10" }
    fn rule(&self) -> &'static str {
        "schedule = (content, cut set into appends, idle polls, BufReader capacity, start offset); the follow_eof hook performs the next append exactly when the reader saw EOF. Exhaustive small scope: all contents of <= 4 characters (<= 10 bytes) over {a, e-acute, emoji, newline} x all cut sets x capacities {1,2,4,8192}; plus random schedules (lines up to 64 KiB in thorough), real writer threads and the CLI in thorough. Non-trivial = >= 2 expected lines and >= 1 EOF retry that carried a partial line over; distinct by schedule hash"
    }
    fn assumptions(&self) -> Vec<String> { vec!["appends become visible to the reader atomically per write call (tmpfs)".into(), "the reader is driven through the hook, so polls happen exactly at EOF retries; real-thread interleavings only in the thorough tier".into()] }
    fn sizes(&self, tier: Tier) -> Sizes { match tier { Tier::Quick => Sizes { cases: 12_000, min_nontrivial: 2_000 }, Tier::Thorough => Sizes { cases: 40_000, min_nontrivial: 20_000 } } }
    fn exhaustive_note(&self) -> Option<String> { Some("contents of <= 4 characters and <= 10 bytes over {a, U+00E9, U+1F600, LF} x all cut sets x BufReader capacities {1,2,4,8192} (kind=small)".into()) }

    fn enumerate(&self, _tier: Tier, emit: &mut dyn FnMut(J)) {
        let mut contents: Vec<String> = vec![String::new()];
        let mut frontier = vec![String::new()];
        for _ in 0..4 {
            let mut next = Vec::new();
            for c in &frontier { for a in ALPHABET { let s = format!("{}{}", c, a); if s.len() <= 10 { next.push(s); } } }
            contents.extend(next.iter().cloned());
            frontier = next;
        }
        for c in contents { for cap in [1usize, 2, 4, 8192] { emit(json!({"kind": "small", "content": c, "cap": cap})); } }
        // one line of each size class (a pending line longer than any buffer an implementation may have chosen)
        let lens: &[usize] = if _tier == Tier::Thorough { &[8191, 8192, 8193, 65_539, (1 << 20) - 1, (1 << 20) + 5, (1 << 21) + 1, (1 << 22) + 3, (1 << 24) + 7] } else { &[8192, 65_539, (1 << 20) + 5, (1 << 21) + 1] };
        for (i, len) in lens.iter().enumerate() { emit(long_case(*len, i)); }
    }

    fn generate(&self, rng: &mut Rng, tier: Tier) -> J {
        if rng.chance(1, if tier == Tier::Thorough { 200 } else { 150 }) {
            // FollowFileExecutor itself (a child process): what the file holds at start-up (nothing, complete lines, a partial
            // last line short or longer than a few KiB) and what is appended afterwards
            let pre = match rng.below(6) { 0 => String::new(), 1 => "old1\nold2\n".to_owned(), 2 => "abc\nxy".to_owned(), 3 => "partial only".to_owned(), 4 => format!("old\n{}", "p".repeat(4090 + rng.below(20))), _ => { let mut p = random_content(rng, Tier::Quick); if rng.chance(1, 2) { p.push_str("tail"); } p } };
            let content = random_content(rng, Tier::Quick);
            let n = content.len();
            let mut cuts: Vec<usize> = (0..rng.below(4)).map(|_| rng.below(n.max(1))).collect();
            cuts.retain(|c| content.is_char_boundary(*c) && *c > 0); cuts.sort(); cuts.dedup();
            let mut chunks = Vec::new(); let mut prev = 0;
            for c in cuts.iter().chain(std::iter::once(&n)) { if *c > prev { chunks.push(json!(content[prev..*c])); prev = *c; } }
            return json!({"kind": "executor", "pre": pre, "chunks": chunks, "head": rng.chance(1, 3), "limit": if rng.chance(1, 4) { json!(rng.below(4)) } else { J::Null }});
        }
        let kind = if tier == Tier::Thorough { match rng.below(40) { 0 => "threads", 1 if eng::cli_path().is_some() => "cli", 2 => "from-end", _ => "schedule" } } else { match rng.below(12) { 0 => "from-end", _ => "schedule" } };
        if kind == "schedule" && rng.chance(1, if tier == Tier::Thorough { 300 } else { 3000 }) { let len = *rng.pick(&[8192usize, 65_536, 1 << 20, 1 << 21]) + rng.below(9); return long_case(len, rng.below(3)); }
        let content = random_content(rng, tier);
        let n = content.len();
        let ncuts = match rng.below(5) { 0 => 0, 1 => n, _ => rng.below(12) };
        let mut cuts: Vec<usize> = if ncuts >= n { (1..n).collect() } else { (0..ncuts).map(|_| 1 + rng.below(n.max(2) - 1)).collect() };
        // favour cuts around newlines and inside multi-byte characters
        for (i, b) in content.bytes().enumerate() { if (b == b'\n' || b >= 0x80) && rng.chance(1, 6) { cuts.push(i); cuts.push(i + 1); } }
        cuts.retain(|&c| c > 0 && c < n);
        cuts.sort(); cuts.dedup();
        if kind == "threads" || kind == "cli" { cuts.truncate(40); }
        let idles: Vec<usize> = (0..cuts.len() + 2).map(|_| if rng.chance(1, 5) { 1 + rng.below(3) } else { 0 }).collect();
        let pre_lines = if kind == "from-end" { 1 + rng.below(3) } else { 0 };
        let mut pre = String::new();
        for i in 0..pre_lines { pre.push_str(&format!("old{}\n", i)); }
        if kind == "from-end" && rng.chance(1, 3) { pre.push_str("partial"); }
        json!({"kind": kind, "content": content, "cuts": cuts, "idles": idles, "cap": *rng.pick(&[1usize, 2, 3, 5, 8, 64, 8192]), "pre": pre})
    }

    fn check(&self, case: &J, obs: &mut Obs) -> Verdict {
        let kind = case["kind"].as_str().unwrap_or("");
        // a very long line is stored as its length only
        let long_content = case.get("long").filter(|l| l.is_object()).map(|l| format!("{}{}{}", l["prefix"].as_str().unwrap_or(""), "x".repeat(l["len"].as_u64().unwrap_or(0) as usize), l["suffix"].as_str().unwrap_or("")));
        if let Some(l) = case.get("long").filter(|l| l.is_object()) { obs.hit(&format!("long-line:2^{}", (l["len"].as_u64().unwrap_or(1) as f64).log2().floor() as u32)); }
        let content = long_content.as_deref().unwrap_or_else(|| case["content"].as_str().unwrap_or(""));
        let cap = case["cap"].as_u64().unwrap_or(8192) as usize;
        if kind == "small" { return self.check_small(content, cap, obs); }
        if kind == "executor" { return check_executor(case, obs); }
        let cuts: Vec<usize> = case["cuts"].as_array().map(|a| a.iter().filter_map(|x| x.as_u64().map(|v| v as usize)).collect()).unwrap_or_default();
        let idles: Vec<usize> = case["idles"].as_array().map(|a| a.iter().filter_map(|x| x.as_u64().map(|v| v as usize)).collect()).unwrap_or_default();
        let pre = case["pre"].as_str().unwrap_or("");
        let bytes = content.as_bytes();
        let chunks = cut(bytes, &cuts);
        let tag = case_hash(case);
        obs.hit(&format!("kind:{}", kind));
        obs.hit(&format!("cap:{}", cap));
        match kind {
            "schedule" | "from-end" => {
                let from_end = kind == "from-end";
                let (delivered, st) = run_schedule(pre.as_bytes(), &chunks, &idles, cap, from_end, tag);
                self.note(&st);
                obs.evals += 1;
                let mut total = pre.as_bytes().to_vec();
                total.extend_from_slice(bytes);
                // with from_end delivery starts at the first byte appended after start-up; a partial old line is completed by new bytes
                let start = if from_end { pre.len() } else { 0 };
                if expected_lines(&total, start).len() >= 2 && st.carry_overs >= 1 { obs.nontrivial(); }
                if st.mid_char_polls > 0 { obs.hit("poll-inside-multibyte"); }
                match judge(&total, start, &delivered, &st, &format!("{} cuts {:?} cap {}", kind, &cuts[..cuts.len().min(12)], cap)) { None => Verdict::Held, Some(v) => Verdict::Violated(vec![v]) }
            }
            "threads" => self.check_threads(bytes, &chunks, cap, tag, obs),
            "cli" => check_cli(bytes, &chunks, tag, obs),
            _ => Verdict::Inconclusive("malformed-case".into()),
        }
    }

    fn extra_evidence(&self) -> J {
        let c = self.counters.borrow();
        json!({"distinct_interleavings": self.interleavings.borrow().len(), "eof_retries": c[0], "carry_overs": c[1], "polls_inside_multibyte_char": c[2], "schedules_run": c[3]})
    }
}

impl C10 {
    /// a real writer thread appends with random micro-delays; the hook only ends the iteration once the writer is done
    fn check_threads(&self, content: &[u8], chunks: &[Vec<u8>], cap: usize, tag: u64, obs: &mut Obs) -> Verdict {
        let path = eng::scratch_dir().join(format!("c10-thr-{}.log", tag));
        std::fs::write(&path, b"").expect("scratch");
        let reader_file = File::open(&path).expect("open");
        let done = Arc::new(AtomicBool::new(false));
        let polls = Arc::new(AtomicUsize::new(0));
        let chunks_w = chunks.to_vec();
        let path_w = path.clone();
        let done_w = done.clone();
        let writer = std::thread::spawn(move || {
            let mut f = OpenOptions::new().append(true).open(&path_w).expect("append");
            let mut x = tag | 1;
            for c in chunks_w {
                f.write_all(&c).expect("write");
                x ^= x << 13; x ^= x >> 7; x ^= x << 17;
                match x % 4 { 0 => std::thread::yield_now(), 1 => std::thread::sleep(std::time::Duration::from_micros(x % 200)), _ => {} }
            }
            done_w.store(true, Ordering::SeqCst);
        });
        let seen_done = Rc::new(RefCell::new(0u32));
        let sd = seen_done.clone();
        let done_r = done.clone();
        let polls_r = polls.clone();
        let path_r = path.clone();
        let lens = Rc::new(RefCell::new(Vec::<u64>::new()));
        let lens2 = lens.clone();
        set_follow_eof(Some(Box::new(move || {
            let n = polls_r.fetch_add(1, Ordering::Relaxed);
            if n % 64 == 0 { if let Ok(m) = std::fs::metadata(&path_r) { let mut l = lens2.borrow_mut(); if l.last() != Some(&m.len()) && l.len() < 256 { l.push(m.len()); } } }
            if done_r.load(Ordering::SeqCst) {
                // the EOF that triggered this call may predate the writer's last append: poll once more before stopping
                let mut s = sd.borrow_mut();
                *s += 1;
                if *s >= 2 { return FollowAction::Stop; }
            }
            FollowAction::Continue
        })));
        let mut delivered = Vec::new();
        let r = guard(|| { for line in FollowFileIterator::new(BufReader::with_capacity(cap.max(1), reader_file)) { delivered.push(line); if delivered.len() > content.len() + 16 { break; } } });
        set_follow_eof(None);
        let _ = writer.join();
        let _ = std::fs::remove_file(&path);
        if let Err(p) = r { delivered.push(format!("\u{0}PANIC {}", p.describe())); }
        let mut lb = Vec::new();
        for l in lens.borrow().iter() { lb.extend_from_slice(&l.to_le_bytes()); }
        let st = RunStats { eof_events: polls.load(Ordering::Relaxed) as u64, carry_overs: 1, mid_char_polls: 0, lens_hash: fnv1a(&lb) };
        self.interleavings.borrow_mut().insert(st.lens_hash);
        obs.evals += 1;
        if expected_lines(content, 0).len() >= 2 { obs.nontrivial(); }
        match judge(content, 0, &delivered, &st, "writer thread") {
            None => Verdict::Held,
            Some(mut v) => { v.sig = v.sig.replace("follow|plain|", "follow|threads|"); Verdict::Violated(vec![v]) }
        }
    }
}

/// `sqlgrep -f --head` as a subprocess with a chunking writer; the process is killed once the expected output arrived
fn check_cli(content: &[u8], chunks: &[Vec<u8>], tag: u64, obs: &mut Obs) -> Verdict {
    use std::io::Read;
    use std::process::{Command, Stdio};
    let Some(cli) = eng::cli_path() else { return Verdict::Inconclusive("no-cli".into()) };
    let def = eng::write_scratch(&format!("c10-cli-{}.def", tag), b"CREATE TABLE everyline ( line = '^(.*)$' , line [ 1 ] => l TEXT ) ;");
    let data = eng::write_scratch(&format!("c10-cli-{}.log", tag), b"");
    let mut child = match Command::new(&cli).args(["-d", def.to_str().unwrap(), data.to_str().unwrap(), "-f", "--head", "--format", "json", "-c", "SELECT l FROM everyline"])
        .stdin(Stdio::null()).stdout(Stdio::piped()).stderr(Stdio::null()).env("TZ", "UTC").spawn() { Ok(c) => c, Err(e) => return Verdict::Inconclusive(format!("spawn: {}", e)) };
    let mut out = child.stdout.take().unwrap();
    let (tx, rx) = std::sync::mpsc::channel::<Vec<u8>>();
    let reader = std::thread::spawn(move || { let mut buf = [0u8; 65536]; loop { match out.read(&mut buf) { Ok(0) | Err(_) => break, Ok(n) => { if tx.send(buf[..n].to_vec()).is_err() { break; } } } } });
    {
        let mut f = OpenOptions::new().append(true).open(&data).expect("append");
        for c in chunks { f.write_all(c).expect("write"); std::thread::sleep(std::time::Duration::from_micros(300)); }
    }
    // a line that is empty yields no row ('' is a non-NULL TEXT, so it does) - every line is admitted by (.*)
    let want: Vec<Vec<u8>> = expected_lines(content, 0);
    let mut got_bytes = Vec::new();
    let deadline = std::time::Instant::now() + std::time::Duration::from_secs(20);
    let mut exited = false;
    loop {
        while let Ok(b) = rx.try_recv() { got_bytes.extend_from_slice(&b); }
        let nrec = got_bytes.iter().filter(|&&b| b == b'\n').count();
        if nrec >= want.len() { std::thread::sleep(std::time::Duration::from_millis(30)); while let Ok(b) = rx.try_recv() { got_bytes.extend_from_slice(&b); } break; }
        if let Ok(Some(_)) = child.try_wait() { exited = true; std::thread::sleep(std::time::Duration::from_millis(20)); while let Ok(b) = rx.try_recv() { got_bytes.extend_from_slice(&b); } break; }
        if std::time::Instant::now() > deadline { break; }
        std::thread::sleep(std::time::Duration::from_millis(2));
    }
    let _ = child.kill();
    let _ = child.wait();
    let _ = reader.join();
    let _ = std::fs::remove_file(&def);
    let _ = std::fs::remove_file(&data);
    obs.evals += 1;
    let got: Vec<Vec<u8>> = String::from_utf8_lossy(&got_bytes).lines().filter(|l| !l.is_empty()).map(|l| {
        serde_json::from_str::<J>(l).ok().and_then(|j| j.get("l").and_then(|v| v.as_str().map(|s| s.as_bytes().to_vec()))).unwrap_or_else(|| format!("<unparsable {}>", l).into_bytes())
    }).collect();
    if got == want { if want.len() >= 2 { obs.nontrivial(); } return Verdict::Held; }
    let is_prefix = got.len() < want.len() && got[..] == want[..got.len()];
    if is_prefix && !exited { return Verdict::Inconclusive("cli-timeout".into()); }
    let kind = if is_prefix { "process-exited-early" } else { "output-differs" };
    Verdict::Violated(vec![Violation::new(format!("follow|cli|{}", kind), format!("CLI -f --head printed {} records, expected {}; exited={}", got.len(), want.len(), exited))])
}


// ---------------------------------------------------------------------------------------------
// the executor level: FollowFileExecutor::new positions the reader (start of the file with head, else its end at start-up)
// and prints to the console, so it runs in a child process whose stdout the monitor reads

/// child side: file = pre, executor created, then at every end-of-file poll the next chunk is appended; after the last
/// chunk the iterator is stopped. Prints the executor's records and a final status line.
pub fn follow_exec_child(case: &J) -> i32 {
    use sqlgrep::execution::execution_engine::ExecutionEngine;
    use sqlgrep::executor::{DisplayOptions, FollowFileExecutor, OutputFormat};
    let mut pre = materialise_bytes(&case["pre"]);
    // a backlog of many complete lines (C19: the interrupt arrives while unread complete lines are pending)
    if let Some(n) = case["backlog_lines"].as_u64() { pre = (0..n).map(|i| format!("backlog line {}\n", i)).collect::<String>().into_bytes(); }
    let chunks: Vec<Vec<u8>> = case["chunks"].as_array().map(|a| a.iter().map(materialise_bytes).collect()).unwrap_or_default();
    let head = case["head"].as_bool().unwrap_or(false);
    let path = eng::scratch_dir().join("c10-exec.log");
    if std::fs::write(&path, &pre).is_err() { return 2; }
    let Ok(tables) = eng::tables_from(crate::monitors::c12::EVERYLINE) else { return 2; };
    let sql = match case["limit"].as_u64() { Some(n) => format!("SELECT l FROM everyline LIMIT {}", n), None => "SELECT l FROM everyline".to_owned() };
    let Ok(stmt) = eng::parse(&sql) else { return 2; };
    let Ok(file) = File::open(&path) else { return 2; };
    let running = Arc::new(AtomicBool::new(true));
    // an interrupter thread: after a short delay it writes a marker line to stdout (println locks stdout, so the marker sits
    // between two records) and clears the flag
    let interrupter = case["interrupt_delay_us"].as_u64().map(|us| { let r = running.clone(); std::thread::spawn(move || { std::thread::sleep(std::time::Duration::from_micros(us)); // (the flag first, the marker second: a pause of this thread between the two must not count the records printed meanwhile as "after the interrupt")
        r.store(false, Ordering::SeqCst); println!("#interrupt"); }) });
    let next = Rc::new(RefCell::new(0usize));
    let (n2, p2) = (next.clone(), path.clone());
    set_follow_eof(Some(Box::new(move || {
        let i = *n2.borrow();
        if i >= chunks.len() { return FollowAction::Stop; }
        if let Ok(mut f) = OpenOptions::new().append(true).open(&p2) { let _ = f.write_all(&chunks[i]); }
        *n2.borrow_mut() = i + 1;
        FollowAction::Continue
    })));
    let opts = DisplayOptions { output_format: OutputFormat::Json, single_result: false, print_result: true };
    let result = match FollowFileExecutor::new(running, file, head, opts, ExecutionEngine::new(&tables, &stmt)) { Ok(mut ex) => ex.execute().map_err(|e| e.to_string()), Err(e) => Err(e.to_string()) };
    set_follow_eof(None);
    if let Some(t) = interrupter { let _ = t.join(); }
    let _ = std::fs::remove_file(&path);
    println!("#status {}", match result { Ok(()) => "ok".to_owned(), Err(e) => format!("error {}", e) });
    println!("#appended-chunks {}", *next.borrow());
    0
}

fn materialise_bytes(j: &J) -> Vec<u8> {
    if let Some(s) = j.as_str() { return s.as_bytes().to_vec(); }
    if let Some(h) = j.get("hex").and_then(|h| h.as_str()) { let hs: Vec<char> = h.chars().filter(|c| c.is_ascii_hexdigit()).collect(); return hs.chunks(2).filter(|p| p.len() == 2).map(|p| u8::from_str_radix(&p.iter().collect::<String>(), 16).unwrap_or(0)).collect(); }
    Vec::new()
}

/// parent side: what must be printed = the complete lines of (head ? pre + appended : appended, where a partial last line of
/// pre is completed by the appended bytes but not shown: delivery starts at the first byte appended after start-up)
fn check_executor(case: &J, obs: &mut Obs) -> Verdict {
    use std::process::{Command, Stdio};
    let pre = materialise_bytes(&case["pre"]);
    let chunks: Vec<Vec<u8>> = case["chunks"].as_array().map(|a| a.iter().map(materialise_bytes).collect()).unwrap_or_default();
    let head = case["head"].as_bool().unwrap_or(false);
    let path = eng::write_scratch(&format!("c10-exec-case-{}.json", case_hash(case)), serde_json::to_string(case).unwrap().as_bytes());
    let exe = std::env::current_exe().expect("current_exe");
    let out = Command::new(&exe).arg("follow-exec").arg(&path).stdin(Stdio::null()).stdout(Stdio::piped()).stderr(Stdio::null()).env("TZ", "UTC").output();
    let _ = std::fs::remove_file(&path);
    let Ok(out) = out else { return Verdict::Inconclusive("child-process-failed".into()) };
    let text = String::from_utf8_lossy(&out.stdout).into_owned();
    let Some(status) = text.lines().find(|l| l.starts_with("#status ")) else { return Verdict::Violated(vec![Violation::new(format!("follow|executor|{}|child-died", if head { "head" } else { "end" }), format!("the child ended without a status line (exit {:?}); output {:?}", out.status.code(), text.chars().take(200).collect::<String>()))]) };
    obs.evals += 1;
    obs.hit(if head { "executor:head" } else { "executor:from-end" });
    let mut appended: Vec<u8> = Vec::new();
    for c in &chunks { appended.extend_from_slice(c); }
    let total: Vec<u8> = if head { let mut t = pre.clone(); t.extend_from_slice(&appended); t } else { appended.clone() };
    let mut want: Vec<String> = expected_lines(&total, 0).into_iter().map(|l| String::from_utf8_lossy(&l).into_owned()).collect();
    // LIMIT n in follow mode: the first n lines, then the executor ends by itself
    if let Some(n) = case["limit"].as_u64() { want.truncate(n as usize); obs.hit("executor:limit"); }
    let got: Vec<String> = text.lines().filter(|l| !l.is_empty() && !l.starts_with("#status") && !l.starts_with("#appended-chunks")).map(|l| serde_json::from_str::<J>(l).ok().and_then(|j| j.get("l").and_then(|v| v.as_str().map(|s| s.to_owned()))).unwrap_or_else(|| format!("<unparsable {}>", l))).collect();
    if want.len() >= 2 && !pre.is_empty() { obs.nontrivial(); }
    let mode = if head { "head" } else { "end" };
    if status != "#status ok" { return Verdict::Violated(vec![Violation::new(format!("follow|executor|{}|error", mode), status.to_owned())]); }
    // LIMIT n: once the n-th row is printed the executor ends; it does not go back to waiting for more input
    if let Some(n) = case["limit"].as_u64() {
        let polls: usize = text.lines().find_map(|l| l.strip_prefix("#appended-chunks ").and_then(|v| v.trim().parse().ok())).unwrap_or(0);
        let mut have = if head { pre.iter().filter(|b| **b == b'\n').count() } else { 0 };
        let mut needed = 0usize;
        for c in &chunks { if (have as u64) >= n { break; } needed += 1; have += c.iter().filter(|b| **b == b'\n').count(); }
        if polls > needed { return Verdict::Violated(vec![Violation::new(format!("follow|executor|{}|kept-waiting-after-limit", mode), format!("LIMIT {}: reached after {} appended chunks, but the executor polled for input {} times", n, needed, polls))]); }
    }
    if got != want {
        let kind = if got.len() < want.len() { "lines-missing" } else if got.len() > want.len() { "lines-extra" } else { "content-differs" };
        return Verdict::Violated(vec![Violation::new(format!("follow|executor|{}|{}", mode, kind), format!("file held {:?} at start-up, then {:?} was appended: printed {:?}, expected {:?}", String::from_utf8_lossy(&pre), String::from_utf8_lossy(&appended).chars().take(80).collect::<String>(), got.iter().take(4).collect::<Vec<_>>(), want.iter().take(4).collect::<Vec<_>>()))]);
    }
    Verdict::Held
}
