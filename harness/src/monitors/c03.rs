//! C03 — SELECT/WHERE: one output row per qualifying row, evaluated on that row alone.
//! Every node of every expression is evaluated through the engine on the same row (`SELECT <sub> FROM t`) and
//! checked against the reference semantics *given the engine's own values of its children*, so a disagreement is
//! always attributed to the innermost node at fault.

use std::collections::HashMap;
use std::sync::atomic::AtomicBool;
use std::sync::Arc;

use serde_json::{json, Value as J};
use sqlgrep::data_model::Tables;
use sqlgrep::execution::execution_engine::{ExecutionConfig, ExecutionEngine};
use sqlgrep::model::{ExpressionTree, SelectStatement, Statement};

use crate::ast::*;
use crate::conv::{canon, from_engine};
use crate::eng;
use crate::gen::*;
use crate::rng::Rng;
use crate::runner::*;
use crate::sem::{self, Expect, Outcome};
use crate::val::*;

pub struct C03;

pub enum NodeRun { Row(Vec<String>, Vec<RV>), NoRow, Err(String), Panic(PanicRec) }

/// one `execute(line)` of a SELECT statement built around `projections` (engine boundary)
pub fn run_select(tables: &Tables, stmt: &Statement, line: &str) -> NodeRun {
    let r = guard(|| {
        let mut engine = ExecutionEngine::new(tables, stmt);
        engine.execute(line.to_owned(), &ExecutionConfig::default()).map(|o| o.result_row.map(|rr| (rr.columns.clone(), rr.data.into_iter().next().map(|r| r.columns.iter().map(RV::from_engine).collect::<Vec<_>>()).unwrap_or_default()))).map_err(|e| e.to_string())
    });
    match r { Err(p) => NodeRun::Panic(p), Ok(Err(e)) => NodeRun::Err(e), Ok(Ok(None)) => NodeRun::NoRow, Ok(Ok(Some((c, v)))) => NodeRun::Row(c, v) }
}

pub fn single_projection(tree: &ExpressionTree, from: &str) -> Statement {
    Statement::Select(SelectStatement { projections: vec![("p".to_owned(), tree.clone())], from: from.to_owned(), ..Default::default() })
}

pub struct NodeEval<'a> { pub tables: &'a Tables, pub line: &'a str, pub from: &'a str, pub cache: HashMap<*const ExpressionTree, Outcome>, pub panics: Vec<(String, PanicRec)> }

impl<'a> NodeEval<'a> {
    /// the engine's own outcome for a sub-expression on this line
    pub fn outcome(&mut self, tree: &ExpressionTree) -> Outcome {
        let key = tree as *const ExpressionTree;
        if let Some(o) = self.cache.get(&key) { return o.clone(); }
        let o = match run_select(self.tables, &single_projection(tree, self.from), self.line) {
            NodeRun::Row(_, v) => Outcome::Val(v.into_iter().next().unwrap_or(RV::Null)),
            NodeRun::NoRow => Outcome::Err("<no row>".into()),
            NodeRun::Err(e) => Outcome::Err(e),
            NodeRun::Panic(p) => { self.panics.push((sem::node_kind(tree), p.clone())); Outcome::Err(format!("panic: {}", p.msg)) }
        };
        self.cache.insert(key, o.clone());
        o
    }
}

fn mismatch_kind(exp: &Expect, got: &Outcome) -> &'static str {
    match got {
        Outcome::Err(_) => "error-for-value",
        Outcome::Val(_) => if exp.vals.is_empty() && !exp.any_ts && !exp.any_text { "value-for-no-value" } else { "value-differs" },
    }
}

/// checks every node of `tree` locally; returns violations
pub fn check_tree(tree: &ExpressionTree, ev: &mut NodeEval, column: &dyn Fn(&str) -> Option<RV>, obs: &mut Obs, vs: &mut Vec<Violation>) {
    let kids = sem::children(tree);
    for k in &kids { check_tree(k, ev, column, obs, vs); }
    let kid_out: Vec<Outcome> = kids.iter().map(|k| ev.outcome(k)).collect();
    // a panic below was already reported at its own node; parents legitimately see it again
    if kid_out.iter().any(|o| matches!(o, Outcome::Err(e) if e.starts_with("panic:"))) {
        let n = ev.panics.len();
        let _ = ev.outcome(tree);
        ev.panics.truncate(n.max(1));
        return;
    }
    let before = ev.panics.len();
    let got = ev.outcome(tree);
    let tags = kid_out.iter().map(|o| o.tag()).collect::<Vec<_>>().join(",");
    let kind = sem::node_kind(tree);
    obs.hit(&format!("node:{}({})", kind, tags));
    obs.evals += 1;
    if ev.panics.len() > before {
        let p = &ev.panics[before].1;
        let sig = format!("expr|{}({})|panic:{}", kind, tags, p.class());
        if !vs.iter().any(|v| v.sig == sig) { vs.push(Violation::new(sig, format!("line {:?}: evaluating {} panicked: {}", ev.line, tree, p.describe()))); }
        return;
    }
    let exp = sem::node(tree, &kid_out, column);
    if !exp.admits(&got) {
        let sig = format!("expr|{}({})|{}", kind, tags, mismatch_kind(&exp, &got));
        if !vs.iter().any(|v| v.sig == sig) {
            vs.push(Violation::new(sig, format!("line {:?}: {} with operands [{}] gave {}, accepted {}", ev.line, tree, kid_out.iter().map(|o| o.show()).collect::<Vec<_>>().join(", "), got.show(), exp.show())));
        }
    }
}

pub fn column_lookup<'a>(table: &'a str, names: &'a [String], row: &'a [RV], line: &'a str) -> impl Fn(&str) -> Option<RV> + 'a {
    move |name: &str| {
        if name == "input" { return Some(RV::Text(line.to_owned())); }
        let bare = name.strip_prefix(&format!("{}.", table)).unwrap_or(name);
        if bare.contains('.') { return None; }
        names.iter().position(|n| n == bare).and_then(|i| row.get(i).cloned())
    }
}

fn expected_name(i: usize, e: &E, alias: &Option<String>) -> Vec<String> {
    if let Some(a) = alias { return vec![a.clone()]; }
    if let E::Col(c) = e { return vec![c.clone()]; }
    vec![format!("p{}", i), format!("p{}", i + 1)]
}

impl Monitor for C03 {
    fn id(&self) -> &'static str { "C03" }
    fn rule(&self) -> &'static str {
        "case = standard typed table (JSON- or regex-backed) + 6 lines with NULLs in every position + a generated SELECT (1-4 projections, WHERE, fully parenthesised, depth <= 4, 6 % ill-typed nodes, boundary literals, zero divisors). Checks: the parsed statement equals the generator's AST (operators, functions, aliases, p<i> names); every node is evaluated through the engine on every admitted row and must lie in the reference accept set given the engine's values of its children; the statement emits exactly one row iff WHERE is true, with the projection values, in input order, `*` in definition order; a no-value expression must give Err. Non-trivial = >= 1 row evaluated and >= 2 operator nodes; distinct by (statement, line) hash"
    }
    fn assumptions(&self) -> Vec<String> { vec!["extraction is taken from the engine (C01/C02 check it); the regex crate, std float arithmetic and std case mapping are trusted".into(), "accept sets of Appendix A.4 where README and statement are silent".into(), "TZ=UTC".into()] }
    fn sizes(&self, tier: Tier) -> Sizes { match tier { Tier::Quick => Sizes { cases: 14_000, min_nontrivial: 15_000 }, Tier::Thorough => Sizes { cases: 600_000, min_nontrivial: 400_000 } } }

    fn generate(&self, rng: &mut Rng, _tier: Tier) -> J {
        let js = rng.chance(3, 4);
        let allc = rng.below(3) == 0;
        let mut t = std_table(rng, "t", js, allc);
        // a table may have a column that is itself called `input`: the bare name still denotes the raw line, `t.input` the column
        if t.json && rng.chance(1, 10) {
            if let Some(at) = t.schema.cols.iter().position(|(n, _)| n == "s") {
                t.schema.cols[at].0 = "input".into();
                t.spec.cols[at].name = "input".into();
                t.spec.cols[at].src = Src::Json(vec![JsonStep::Field("input".into())]);
            }
        }
        let hostile = rng.chance(1, 3);
        let dc = DataCfg::random(rng, t.schema.cols.len(), hostile);
        let lines = std_lines(rng, &t, 6, &dc);
        let cfg = StmtCfg { expr: ExprCfg { hostile, ..Default::default() }, allow_distinct: false, allow_limit: false, allow_star: true, max_limit: 0 };
        let sel = gen_select(rng, &t.schema, &cfg);
        json!({"tables": t.spec.text(), "sel": sel.to_json(), "stmt": sel.text(Paren::Full), "lines": lines})
    }

    fn check(&self, case: &J, obs: &mut Obs) -> Verdict {
        let Some(sel) = Sel::from_json(&case["sel"]) else { return Verdict::Inconclusive("malformed-case".into()) };
        let tables = match eng::tables_from(case["tables"].as_str().unwrap_or("")) { Ok(t) => t, Err(e) => return Verdict::Inconclusive(format!("table: {}", e.show())) };
        let text = case["stmt"].as_str().unwrap_or("");
        let lines: Vec<String> = case["lines"].as_array().map(|a| a.iter().filter_map(|x| x.as_str().map(|s| s.to_owned())).collect()).unwrap_or_default();
        let mut vs: Vec<Violation> = Vec::new();
        let stmt = match eng::parse(text) {
            Ok(s) => s,
            Err(eng::EngErr::Panic(p)) => return Verdict::Violated(vec![Violation::new(format!("stmt|{}", p.sig()), p.describe())]),
            Err(eng::EngErr::Err(e)) => {
                let norm: String = { let mut q = false; e.chars().filter(|c| { if *c == '\'' { q = !q; } !q || *c == '\'' }).take(50).collect() };
                return Verdict::Violated(vec![Violation::new(format!("stmt|rejected|{}", norm), format!("a statement in the documented syntax was rejected: {} :: {}", e, text))]);
            }
        };
        let Statement::Select(select) = &stmt else { return Verdict::Inconclusive("not-a-plain-select".into()) };

        // 1. what the parser understood is what was written
        let wildcard = sel.projs.len() == 1 && sel.projs[0].0 == E::Star;
        if select.projections.len() != sel.projs.len() { vs.push(Violation::new("lowering|projection-count", format!("{} projections parsed from {:?}", select.projections.len(), text))); return Verdict::Violated(vs); }
        for (i, ((name, tree), (e, alias))) in select.projections.iter().zip(sel.projs.iter()).enumerate() {
            match from_engine(tree) {
                Some(g) if canon(&g) == canon(e) => {}
                other => vs.push(Violation::new(format!("lowering|projection|{}", crate::conv::op_class(e)), format!("projection {} of {:?}: written {:?}, parsed {:?}", i, text, canon(e), other.map(|g| canon(&g))))),
            }
            if !wildcard && !expected_name(i, e, alias).contains(name) { vs.push(Violation::new("lowering|column-name", format!("projection {} of {:?} is named {:?}, expected one of {:?}", i, text, name, expected_name(i, e, alias)))); }
        }
        match (&select.filter, &sel.filter) {
            (None, None) => {}
            (Some(t), Some(e)) => if from_engine(t).map(|g| canon(&g)) != Some(canon(e)) { vs.push(Violation::new(format!("lowering|filter|{}", crate::conv::op_class(e)), format!("WHERE of {:?}: written {:?}, parsed {:?}", text, canon(e), from_engine(t).map(|g| canon(&g))))); },
            _ => vs.push(Violation::new("lowering|filter-presence", format!("{:?}", text))),
        }
        if !vs.is_empty() { return Verdict::Violated(vs); }

        let Some(table) = tables.get("t") else { return Verdict::Inconclusive("no-table".into()) };
        let names: Vec<String> = table.columns.iter().map(|c| c.name.clone()).collect();
        let stmt_hash = crate::rng::fnv1a(text.as_bytes());
        let ops: usize = sel.projs.iter().map(|(e, _)| e.op_nodes()).sum::<usize>() + sel.filter.as_ref().map(|e| e.op_nodes()).unwrap_or(0);
        let mut per_line: Vec<Option<Result<Option<Vec<RV>>, ()>>> = Vec::new(); // expected statement-level outcome per line when decidable

        for line in &lines {
            let row = match guard(|| table.extract(line)) { Ok(r) => r, Err(p) => { vs.push(Violation::new(format!("stmt|{}", p.sig()), p.describe())); continue; } };
            let full = run_select(&tables, &stmt, line);
            if !row.any_result() {
                // a line that is no row leaves no trace
                match full { NodeRun::NoRow => {}, NodeRun::Row(..) => vs.push(Violation::new("stmt|row-for-non-admitted-line", format!("line {:?}", line))), NodeRun::Err(e) => vs.push(Violation::new("stmt|error-for-non-admitted-line", format!("line {:?}: {}", line, e))), NodeRun::Panic(p) => vs.push(Violation::new(format!("stmt|{}", p.sig()), p.describe())) }
                per_line.push(Some(Ok(None)));
                continue;
            }
            let rowv: Vec<RV> = row.columns.iter().map(RV::from_engine).collect();
            let lookup = column_lookup("t", &names, &rowv, line);
            let mut ev = NodeEval { tables: &tables, line, from: "t", cache: HashMap::new(), panics: Vec::new() };
            if ops >= 2 { obs.sub(crate::rng::mix(&[stmt_hash, crate::rng::fnv1a(line.as_bytes())])); }

            // 2. every node, locally
            if let Some(f) = &select.filter { check_tree(f, &mut ev, &lookup, obs, &mut vs); }
            if !wildcard { for (_, t) in &select.projections { check_tree(t, &mut ev, &lookup, obs, &mut vs); } }

            // 3. the statement on this row, from the engine's own node outcomes
            let mut expect_err = false; let mut may_err = false; let mut emits = true; let mut may_skip = false;
            if let Some(f) = &select.filter {
                match ev.outcome(f) {
                    Outcome::Err(_) => expect_err = true,
                    Outcome::Val(RV::Bool(true)) => {}
                    Outcome::Val(RV::Bool(false)) | Outcome::Val(RV::Null) => emits = false,
                    Outcome::Val(_) => { emits = false; may_err = true; }
                }
            }
            let mut values: Vec<RV> = Vec::new();
            if emits && !expect_err {
                if wildcard { values = rowv.clone(); }
                else { for (_, t) in &select.projections { match ev.outcome(t) { Outcome::Val(v) => values.push(v), Outcome::Err(_) => { expect_err = true; } } } }
            } else if !expect_err {
                // rows filtered out: projections need not be evaluated, an eager implementation may still report their errors
                if !wildcard && select.projections.iter().any(|(_, t)| matches!(ev.outcome(t), Outcome::Err(_))) { may_err = true; may_skip = true; }
            }
            let _ = may_skip;
            let any_panic = !ev.panics.is_empty();
            if any_panic { per_line.push(None); continue; }
            match (&full, expect_err, emits) {
                (NodeRun::Panic(p), _, _) => vs.push(Violation::new(format!("stmt|{}", p.sig()), p.describe())),
                (NodeRun::Err(_), true, _) => { per_line.push(Some(Err(()))); obs.hit("stmt:error-reported"); }
                (NodeRun::Err(e), false, _) => { if may_err { per_line.push(None); } else { vs.push(Violation::new("stmt|error-without-cause", format!("line {:?}: statement {:?} reports {} although every part evaluates", line, text, e))); per_line.push(None); } }
                (NodeRun::Row(..), true, _) | (NodeRun::NoRow, true, _) => { vs.push(Violation::new("stmt|no-error-for-no-value", format!("line {:?}: a part of {:?} has no value on this row, yet no error was reported", line, text))); per_line.push(None); }
                (NodeRun::Row(cols, got), false, true) => {
                    let names_ok = if wildcard { *cols == names } else { cols.len() == sel.projs.len() };
                    if !names_ok { vs.push(Violation::new(if wildcard { "stmt|star-columns" } else { "stmt|column-count" }, format!("line {:?}: columns {:?}", line, cols))); }
                    // now() differs between two evaluations
                    let same = got.len() == values.len() && got.iter().zip(values.iter()).all(|(a, b)| a.same(b, 0.0) || (matches!(a, RV::Ts(_)) && text.contains("now (")));
                    if !same { vs.push(Violation::new(if wildcard { "stmt|star-values" } else { "stmt|row-differs-from-its-projections" }, format!("line {:?}: statement row {} but its projections evaluate to {}", line, show_row(got), show_row(&values)))); }
                    per_line.push(Some(Ok(Some(got.clone()))));
                    obs.hit("stmt:row-emitted");
                }
                (NodeRun::NoRow, false, true) => { vs.push(Violation::new("stmt|qualifying-row-missing", format!("line {:?}: WHERE is true but {:?} emitted no row", line, text))); per_line.push(None); }
                (NodeRun::Row(_, got), false, false) => { vs.push(Violation::new("stmt|row-although-where-not-true", format!("line {:?}: WHERE is not true but {:?} emitted {}", line, text, show_row(got)))); per_line.push(None); }
                (NodeRun::NoRow, false, false) => { per_line.push(Some(Ok(None))); obs.hit("stmt:row-correctly-not-returned"); }
            }
        }

        // 4. executor boundary: records in input order, one per qualifying row, stop with Err at the first failing line
        if vs.is_empty() && per_line.iter().all(|p| p.is_some()) {
            let tag = case_hash(case);
            let bytes: Vec<u8> = lines.iter().map(|l| format!("{}\n", l)).collect::<String>().into_bytes();
            let paths = crate::monitors::c12::write_files(tag, "c03", &[bytes]);
            let out = eng::run_executor(&tables, &stmt, &paths, "json", true, Arc::new(AtomicBool::new(true)), None);
            crate::monitors::c12::remove_files(&paths);
            let mut want_rows = 0usize; let mut want_err = false;
            for p in &per_line { match p { Some(Ok(Some(_))) => want_rows += 1, Some(Err(())) => { want_err = true; break; } _ => {} } }
            let got_rows = out.printed.iter().filter(|l| !l.is_empty()).count();
            if out.result.is_err() != want_err || got_rows != want_rows {
                if !text.contains("now (") { vs.push(Violation::new("stmt|executor-records", format!("{:?}: executor printed {} records (error: {}), per-line evaluation says {} (error: {})", text, got_rows, out.result.is_err(), want_rows, want_err))); }
            }
        }
        if vs.is_empty() { Verdict::Held } else { Verdict::Violated(vs) }
    }
}
