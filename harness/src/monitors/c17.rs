//! C17 — printed records faithfully carry the result rows in every output format.

use std::sync::atomic::AtomicBool;
use std::sync::Arc;

use serde_json::{json, Value as J};
use sqlgrep::data_model::Row;
use sqlgrep::execution::ResultRow;
use sqlgrep::executor::OutputPrinter;
use sqlgrep::model::Value;

use crate::eng::{self, RecPrinter};
use crate::monitors::c16::mk;
use crate::rng::Rng;
use crate::runner::*;
use crate::val::RV;

pub struct C17;

fn real_spec(x: f64) -> J { json!(["real", format!("{:#018x}", x.to_bits())]) }

const NASTY_TEXT: &[&str] = &["plain", "", "it's", "say \"hi\"", "a;b", "a, b", "x: y", "back\\slash", "tab\there", "line\nbreak", "cr\rhere", "nul\u{0}char", "\u{e5}\u{e4}\u{f6}", "\u{1F600}", "\u{2028}sep", "{\"json\":1}", "NULL", "'quoted'", "  padded  ", "\u{7f}\u{1b}[0m"];
const SAFE_TEXT: &[&str] = &["plain", "abc", "x9", "\u{e5}\u{e4}\u{f6}", "\u{1F600}", "NULL", "under_score", "a.b"];

fn gen_value(rng: &mut Rng, safe: bool) -> J {
    match rng.below(11) {
        0 => json!(["null"]),
        1 => json!(["int", rng.pick(&[i64::MAX, i64::MIN, 0, -1, 1, 1 << 53, (1 << 53) + 1, -(1 << 53) - 1, 42]).to_string()]),
        2 => json!(["int", rng.range(-1000, 1000).to_string()]),
        3 => real_spec(*rng.pick(&[0.0, -0.0, 0.1, 1.0 / 3.0, 1e308, -1e308, 5e-324, 2.5, 100.0, 1e21, 1e-7, 123456789.125, 9007199254740993.0, -1.005])),
        4 => real_spec(match rng.below(4) { 0 => rng.range(-4000, 4000) as f64 / 8.0, 1 => rng.range(-100000, 100000) as f64 / 1000.0, 2 => (rng.range(-2000, 2000) * 10 + 5) as f64 / 1000.0, _ => *rng.pick(&[1.7e308, -1.7e308, 1.8e306, 1e307, 4.35, 0.615, -2.675, 1.005, 8.325, 1e15 + 0.375, 0.045, 1e-3, 0.005, 0.015, 0.995]) }),
        5 => json!(["bool", rng.chance(1, 2)]),
        6 | 7 => json!(["text", *rng.pick(if safe { SAFE_TEXT } else { NASTY_TEXT })]),
        8 => {
            let n = match rng.below(6) { 0 => 0, 1 => 200, _ => rng.below(5) };
            match rng.below(3) {
                0 => json!(["arr", "int", (0..n).map(|_| if rng.chance(1, 8) { json!(["null"]) } else { json!(["int", rng.range(-5, 5).to_string()]) }).collect::<Vec<_>>()]),
                1 => json!(["arr", "text", (0..n).map(|_| json!(["text", *rng.pick(if safe { SAFE_TEXT } else { NASTY_TEXT })])).collect::<Vec<_>>()]),
                _ => json!(["arr", "real", (0..n).map(|_| real_spec(rng.range(-40, 40) as f64 / 8.0)).collect::<Vec<_>>()]),
            }
        }
        9 => json!(["ts", [if rng.chance(1, 4) { *rng.pick(&[1i64, 33, 987, 999, 1000, 9999, 1583, 100]) } else { rng.range(1970, 2100) }, rng.range(1, 12), rng.range(1, 28), rng.range(0, 23), rng.range(0, 59), rng.range(0, 59), rng.range(0, 999) * 1000]]),
        // differences of timestamps: fractions of a second, either sign (also less than a second)
        10 if rng.chance(1, 3) => { let ms = *rng.pick(&[200i64, 5, 999, 1, 1005, 1500, 59_999, 61_000, 3_600_200, 86_400_001]); json!(["ivus", (if rng.chance(1, 2) { -ms } else { ms }) * 1000 + if rng.chance(1, 4) { rng.range(0, 999) } else { 0 }]) }
        _ => json!(["iv", format!("{}{}:{:02}:{:02}", if rng.chance(1, 6) { "-" } else { "" }, *rng.pick(&[0i64, 1, 9, 10, 23, 24, 99, 100, 2400, 100000]) + rng.range(0, 3), rng.range(0, 59), rng.range(0, 59))]),
    }
}

/// a decoded JSON record whose numbers keep their printed token: serde_json (without `float_roundtrip`, which the
/// repository does not enable either) may decode a number one ulp off, so REALs are judged on the token itself,
/// parsed with std's correctly rounding `f64::from_str`
#[derive(Debug)]
enum RJ { Null, Bool(bool), Num(String), Str(String), Arr(Vec<RJ>), Obj(Vec<(String, RJ)>) }

fn number_tokens(rec: &str) -> Vec<String> {
    let b = rec.as_bytes();
    let (mut i, mut out) = (0, Vec::new());
    while i < b.len() {
        match b[i] {
            b'"' => { i += 1; while i < b.len() && b[i] != b'"' { if b[i] == b'\\' { i += 1; } i += 1; } i += 1; }
            b'-' | b'0'..=b'9' => { let st = i; while i < b.len() && matches!(b[i], b'-' | b'+' | b'.' | b'e' | b'E' | b'0'..=b'9') { i += 1; } out.push(rec[st..i].to_owned()); }
            _ => i += 1,
        }
    }
    out
}

fn annotate(j: &J, toks: &mut std::vec::IntoIter<String>) -> RJ {
    match j {
        J::Null => RJ::Null, J::Bool(b) => RJ::Bool(*b), J::String(s) => RJ::Str(s.clone()),
        J::Number(n) => RJ::Num(toks.next().unwrap_or_else(|| n.to_string())),
        J::Array(a) => RJ::Arr(a.iter().map(|x| annotate(x, toks)).collect()),
        J::Object(o) => RJ::Obj(o.iter().map(|(k, v)| (k.clone(), annotate(v, toks))).collect()),
    }
}

/// recover a row value from the JSON record value
fn json_matches(v: &Value, j: &RJ) -> bool {
    match (v, j) {
        (Value::Null, RJ::Null) => true,
        (Value::Int(i), RJ::Num(t)) => t.parse::<i64>() == Ok(*i),
        // a REAL: the token denotes exactly this double (an integral REAL may be printed as `1.0` or as an integer token)
        (Value::Float(f), RJ::Num(t)) => t.parse::<f64>().map(|x| x.to_bits() == f.0.to_bits() || (x == f.0 && x != 0.0)).unwrap_or(false),
        (Value::Bool(b), RJ::Bool(x)) => b == x,
        (Value::String(s), RJ::Str(x)) => s == x,
        (Value::Array(_, xs), RJ::Arr(a)) => a.len() == xs.len() && xs.iter().zip(a).all(|(x, y)| json_matches(x, y)),
        (Value::Timestamp(_), RJ::Str(x)) | (Value::Interval(_), RJ::Str(x)) => ts_iv_text_ok(v, x),
        _ => false,
    }
}

fn show_rj(j: &RJ) -> String {
    match j { RJ::Null => "null".into(), RJ::Bool(b) => b.to_string(), RJ::Num(t) => t.clone(), RJ::Str(s) => format!("{:?}", s), RJ::Arr(a) => format!("[{}]", a.iter().map(show_rj).collect::<Vec<_>>().join(",")), RJ::Obj(o) => format!("{{{}}}", o.iter().map(|(k, v)| format!("{:?}:{}", k, show_rj(v))).collect::<Vec<_>>().join(",")) }
}


/// the text form of a TIMESTAMP / INTERVAL as the formats show it: `YYYY-MM-DD hh:mm:ss.mmm` (four-digit year; for years
/// outside 0..=9999 the value's own rendering is taken) and `hh:mm:ss.mmm` (hours may exceed two digits; a negative
/// interval is compared with the value's own rendering, its notation is not pinned down by the documentation)
fn canonical_text(v: &Value) -> Option<String> {
    match RV::from_engine(v) {
        RV::Ts(us) => { let c = crate::val::parts_from_ts(us); if (0..=9999).contains(&c.y) { Some(crate::val::display_text(&RV::Ts(us))) } else { None } }
        RV::Iv(us) if us >= 0 => Some(crate::val::display_text(&RV::Iv(us))),
        _ => None,
    }
}
fn ts_iv_text_ok(v: &Value, shown: &str) -> bool {
    match canonical_text(v) {
        Some(c) => shown == c,
        None => {
            // a negative interval: whatever its notation, it is not the text of its positive counterpart (which is pinned down
            // above) unless the two coincide at the shown precision - otherwise the record no longer tells the two rows apart
            if let RV::Iv(us) = RV::from_engine(v) { if us < 0 && us / 1000 != 0 && us != i64::MIN && shown == crate::val::display_text(&RV::Iv(-us)) { return false; } }
            shown == v.to_string()
        }
    }
}

fn needs_escaping(v: &Value) -> bool {
    match v {
        Value::String(s) => s.chars().any(|c| c == '"' || c == '\\' || c == '\'' || c == ';' || c == ',' || c == ':' || c.is_control() || !c.is_ascii()),
        Value::Int(i) => i.unsigned_abs() > (1 << 53),
        Value::Float(f) => f.0.abs() > 1e15 || (f.0 != 0.0 && f.0.abs() < 1e-5) || f.0.to_bits() == (-0.0f64).to_bits(),
        Value::Array(_, xs) => xs.len() > 50 || xs.iter().any(needs_escaping),
        _ => false,
    }
}

fn delimiter_free(v: &Value) -> bool {
    match v {
        Value::String(s) => !s.chars().any(|c| c == '"' || c == '\'' || c == ';' || c == ',' || c == '\n' || c == '\r' || c == ':'),
        Value::Array(_, xs) => xs.is_empty(),
        _ => true,
    }
}

/// text rendering of one value as the documented formats show it (REAL: correctly rounded at the shown precision, >= 2 decimals, exact decimal arithmetic)
fn text_matches(v: &Value, shown: &str) -> bool {
    match v {
        Value::Float(f) => crate::val::decimal_rounding_ok(f.0, shown),
        Value::Null => shown == "NULL",
        Value::Int(i) => shown == i.to_string(),
        Value::Bool(b) => shown == b.to_string(),
        Value::String(s) => shown == format!("'{}'", s) || shown == *s,
        Value::Timestamp(_) | Value::Interval(_) => ts_iv_text_ok(v, shown),
        other => shown == other.to_string(),
    }
}

impl Monitor for C17 {
    fn id(&self) -> &'static str { "C17" }
    fn rule(&self) -> &'static str {
        "kind=print: OutputPrinter::print is called with ResultRows the harness holds (1-4 results of 0-5 rows, 1-6 distinctly named columns, every value type, hostile text, 64-bit extremes, intervals with fractions of a second of either sign, arrays of 0-200 elements) in json / csv / text with single_result on and off; kind=e2e: FileExecutor over generated input in all three formats, records paired with the engine's own rows. Oracle: #non-blank records = #rows in order; JSON keys = column names in order and values recover the row exactly; CSV one header first then one field per column; text `name: value` pairs. Non-trivial = >= 2 columns and a value needing escaping or an extreme number; distinct by case hash"
    }
    fn assumptions(&self) -> Vec<String> { vec!["serde_json's decoder is trusted for reading printed records".into(), "timestamps with a year in 0..=9999 and non-negative intervals are compared with the harness' own rendering `YYYY-MM-DD hh:mm:ss.mmm` / `hh:mm:ss.mmm`, other timestamps / intervals with the value's own text form; a negative interval must not print as the text of its positive counterpart".into()] }
    fn sizes(&self, tier: Tier) -> Sizes { match tier { Tier::Quick => Sizes { cases: 20_000, min_nontrivial: 3_000 }, Tier::Thorough => Sizes { cases: 1_000_000, min_nontrivial: 100_000 } } }

    fn generate(&self, rng: &mut Rng, _tier: Tier) -> J {
        if rng.chance(1, 6) {
            use crate::gen::*;
            let t = std_table(rng, "t", true, true);
            let dc = DataCfg::random(rng, t.schema.cols.len(), false);
            let n = 1 + rng.below(10);
            let lines = std_lines(rng, &t, n, &dc);
            return json!({"kind": "e2e", "tables": t.spec.text(), "lines": lines, "format": *rng.pick(&["json", "csv", "text"]), "single": rng.chance(1, 2)});
        }
        let format = *rng.pick(&["json", "json", "csv", "text"]);
        let safe = format != "json" && rng.chance(2, 3);
        let ncols = 1 + rng.below(6);
        let lone_input = format == "text" && rng.chance(1, 6);
        // a lone column whose name merely resembles `input` is an ordinary column (`Input: value`)
        let near_input = !lone_input && ncols == 1 && rng.chance(1, 3);
        let columns: Vec<String> = if lone_input { vec!["input".into()] } else if near_input { vec![rng.pick(&["Input", "INPUT", "iNPUT", "input_", "xinput", "inputs", "t.input", " input"]).to_string()] } else { (0..ncols).map(|i| match rng.below(6) { 0 => format!("p{}", i), 1 => format!("col{}", i), 2 => format!("t.c{}", i), 3 => format!("count{}", i), 4 => format!("x{}_y", i), _ => format!("c{}", i) }).collect() };
        let nres = 1 + rng.below(4);
        let results: Vec<Vec<Vec<J>>> = (0..nres).map(|_| { let nrows = rng.below(6); (0..nrows).map(|_| (0..columns.len()).map(|_| if lone_input { json!(["text", *rng.pick(SAFE_TEXT)]) } else { gen_value(rng, safe) }).collect()).collect() }).collect();
        // consecutive rows that are equal as values but not as printed (0.0 / -0.0), or simply repeated
        let mut results = results;
        for rows in results.iter_mut() {
            if !rows.is_empty() && rng.chance(1, 4) {
                let at = rng.below(rows.len());
                let mut twin = rows[at].clone();
                let flipped = if rng.chance(1, 2) { real_spec(0.0) } else { real_spec(-0.0) };
                let other = if flipped == real_spec(0.0) { real_spec(-0.0) } else { real_spec(0.0) };
                let ci = rng.below(twin.len());
                rows[at][ci] = flipped; twin[ci] = other;
                rows.insert(at + 1, twin);
            }
        }
        json!({"kind": "print", "format": format, "single": rng.chance(1, 2), "columns": columns, "results": results})
    }

    fn check(&self, case: &J, obs: &mut Obs) -> Verdict {
        let format = case["format"].as_str().unwrap_or("json");
        let single = case["single"].as_bool().unwrap_or(false);
        obs.hit(&format!("format:{}", format));
        obs.hit(&format!("single:{}", single));
        if case["kind"] == "e2e" { return check_e2e(case, format, single, obs); }
        let columns: Vec<String> = case["columns"].as_array().map(|a| a.iter().filter_map(|x| x.as_str().map(|s| s.to_owned())).collect()).unwrap_or_default();
        let mut results: Vec<Vec<Vec<Value>>> = Vec::new();
        for r in case["results"].as_array().map(|a| a.as_slice()).unwrap_or(&[]) {
            let mut rows = Vec::new();
            for row in r.as_array().map(|a| a.as_slice()).unwrap_or(&[]) {
                let vals: Option<Vec<Value>> = row.as_array().map(|a| a.iter().map(mk).collect()).unwrap_or(None);
                match vals { Some(v) if v.len() == columns.len() => rows.push(v), _ => return Verdict::Inconclusive("bad-spec".into()) }
            }
            results.push(rows);
        }
        let running = Arc::new(AtomicBool::new(true));
        let mut printer = OutputPrinter::with_printer(RecPrinter::new(running, None), eng::format_of(format));
        let r = guard(|| {
            for rows in &results {
                let rr = ResultRow { data: rows.iter().map(|v| Row::new(v.clone())).collect(), columns: columns.clone() };
                printer.print(&rr, single);
            }
        });
        if let Err(p) = r { return Verdict::Violated(vec![Violation::new(format!("print|{}|{}", format, p.sig()), p.describe())]); }
        let printed: Vec<String> = printer.printer().lines.clone();
        let all_rows: Vec<&Vec<Value>> = results.iter().flat_map(|r| r.iter()).collect();
        if columns.len() >= 2 && all_rows.iter().any(|r| r.iter().any(needs_escaping)) { obs.nontrivial(); }
        for r in &all_rows { for v in r.iter() { obs.hit(&format!("value:{}", RV::from_engine(v).tag())); } }
        judge(format, &columns, &all_rows, &printed)
    }
}


fn judge(format: &str, columns: &[String], rows: &[&Vec<Value>], printed: &[String]) -> Verdict {
    let mut vs: Vec<Violation> = Vec::new();
    let records: Vec<&String> = printed.iter().filter(|l| !l.is_empty()).collect();
    let lone_input = format == "text" && columns.len() == 1 && columns[0] == "input";
    match format {
        "json" => {
            if records.len() != rows.len() { vs.push(Violation::new("print|json|record-count", format!("{} rows but {} records", rows.len(), records.len()))); }
            for (i, (rec, row)) in records.iter().zip(rows.iter()).enumerate() {
                let parsed: Result<J, _> = serde_json::from_str(rec);
                let Ok(J::Object(map)) = parsed else { vs.push(Violation::new("print|json|not-an-object", format!("record {}: {:?}", i, rec.chars().take(120).collect::<String>()))); break; };
                let keys: Vec<&String> = map.keys().collect();
                if keys.len() != columns.len() || keys.iter().zip(columns.iter()).any(|(a, b)| *a != b) { vs.push(Violation::new("print|json|keys", format!("record {}: keys {:?} columns {:?}", i, keys, columns))); break; }
                let RJ::Obj(raw) = annotate(&J::Object(map.clone()), &mut number_tokens(rec).into_iter()) else { break; };
                for (ci, ((k, v), (_, shown))) in columns.iter().zip(row.iter()).zip(raw.iter()).enumerate() {
                    if !json_matches(v, shown) { vs.push(Violation::new(format!("print|json|value|{}", RV::from_engine(v).tag()), format!("record {} column {} ({}): row value {} printed as {}", i, ci, k, RV::from_engine(v).show(), show_rj(shown)))); break; }
                }
                if !vs.is_empty() { break; }
            }
        }
        "csv" => {
            if rows.is_empty() { if !records.is_empty() { vs.push(Violation::new("print|csv|output-without-rows", format!("{:?}", records))); } }
            else {
                let header = columns.join(";");
                if records.first().map(|s| s.as_str()) != Some(header.as_str()) { vs.push(Violation::new("print|csv|header-missing", format!("first line {:?}, header {:?}", records.first(), header))); }
                else if records.len() != rows.len() + 1 { vs.push(Violation::new("print|csv|record-count", format!("{} rows but {} lines after the header (a repeated header counts)", rows.len(), records.len() - 1))); }
                else {
                    for (i, (rec, row)) in records.iter().skip(1).zip(rows.iter()).enumerate() {
                        if !row.iter().all(delimiter_free) { continue; }
                        let fields: Vec<&str> = rec.split(';').collect();
                        if fields.len() != columns.len() { vs.push(Violation::new("print|csv|field-count", format!("record {}: {} fields for {} columns: {:?}", i, fields.len(), columns.len(), rec))); break; }
                        if let Some((ci, _)) = row.iter().zip(fields.iter()).enumerate().find(|(_, (v, f))| !text_matches(v, f)).map(|(ci, x)| (ci, x)) { vs.push(Violation::new(format!("print|csv|value|{}", RV::from_engine(&row[ci]).tag()), format!("record {} field {}: {:?} for value {}", i, ci, fields[ci], RV::from_engine(&row[ci]).show()))); break; }
                    }
                }
            }
        }
        _ => {
            if records.len() != rows.len() && rows.iter().all(|r| r.iter().all(delimiter_free)) { vs.push(Violation::new("print|text|record-count", format!("{} rows but {} records", rows.len(), records.len()))); }
            else if records.len() == rows.len() {
                for (i, (rec, row)) in records.iter().zip(rows.iter()).enumerate() {
                    if !row.iter().all(delimiter_free) { continue; }
                    if lone_input {
                        if !text_matches(&row[0], rec) { vs.push(Violation::new("print|text|lone-input", format!("record {}: {:?} for {}", i, rec, RV::from_engine(&row[0]).show()))); break; }
                        continue;
                    }
                    let parts: Vec<&str> = rec.split(", ").collect();
                    if parts.len() != columns.len() { vs.push(Violation::new("print|text|pair-count", format!("record {}: {:?}", i, rec))); break; }
                    for (ci, (part, (name, v))) in parts.iter().zip(columns.iter().zip(row.iter())).enumerate() {
                        let ok = part.strip_prefix(&format!("{}: ", name)).map(|shown| text_matches(v, shown)).unwrap_or(false);
                        if !ok { vs.push(Violation::new(format!("print|text|pair|{}", RV::from_engine(v).tag()), format!("record {} pair {}: {:?} for column {} value {}", i, ci, part, name, RV::from_engine(v).show()))); break; }
                    }
                    if !vs.is_empty() { break; }
                }
            }
        }
    }
    if vs.is_empty() { Verdict::Held } else { Verdict::Violated(vs) }
}

fn check_e2e(case: &J, format: &str, single: bool, obs: &mut Obs) -> Verdict {
    use sqlgrep::execution::execution_engine::{ExecutionConfig, ExecutionEngine};
    let tables = match eng::tables_from(case["tables"].as_str().unwrap_or("")) { Ok(t) => t, Err(e) => return Verdict::Inconclusive(format!("table: {}", e.show())) };
    let lines: Vec<String> = case["lines"].as_array().map(|a| a.iter().filter_map(|x| x.as_str().map(|s| s.to_owned())).collect()).unwrap_or_default();
    let stmt = match eng::parse("SELECT * FROM t") { Ok(s) => s, Err(e) => return Verdict::Inconclusive(e.show()) };
    // the rows, straight from the engine
    let mut rows: Vec<Vec<Value>> = Vec::new();
    let mut columns: Vec<String> = Vec::new();
    let r = guard(|| -> Result<(), String> {
        let mut engine = ExecutionEngine::new(&tables, &stmt);
        for l in &lines {
            let o = engine.execute(l.clone(), &ExecutionConfig::default()).map_err(|e| e.to_string())?;
            if let Some(rr) = o.result_row { if columns.is_empty() { columns = rr.columns.clone(); } for row in rr.data { rows.push(row.columns); } }
        }
        Ok(())
    });
    if !matches!(r, Ok(Ok(()))) { return Verdict::Inconclusive("lower-layer-error".into()); }
    let tag = case_hash(case);
    let bytes: Vec<u8> = lines.iter().map(|l| format!("{}\n", l)).collect::<String>().into_bytes();
    let paths = crate::monitors::c12::write_files(tag, "c17", &[bytes]);
    let out = eng::run_executor(&tables, &stmt, &paths, format, single, Arc::new(AtomicBool::new(true)), None);
    crate::monitors::c12::remove_files(&paths);
    if let Err(e) = &out.result { return Verdict::Violated(vec![Violation::new(format!("e2e|{}|error", format), e.show())]); }
    if rows.len() >= 2 { obs.nontrivial(); }
    obs.hit("kind:e2e");
    if out.total_result_rows != rows.len() as u64 { return Verdict::Violated(vec![Violation::new(format!("e2e|{}|total_result_rows", format), format!("statistics say {} rows, engine produced {}", out.total_result_rows, rows.len()))]); }
    let refs: Vec<&Vec<Value>> = rows.iter().collect();
    match judge(format, &columns, &refs, &out.printed) {
        Verdict::Violated(vs) => Verdict::Violated(vs.into_iter().map(|v| Violation::new(v.sig.replacen("print|", "e2e|", 1), v.detail)).collect()),
        other => other,
    }
}
