//! Shared pieces of the relational (metamorphic) monitors C06, C07, C08, C11, C15: a base case = standard typed
//! table(s) + lines + statement (+ joined file), and helpers to run it through the engine in its different modes.

use std::path::PathBuf;

use serde_json::{json, Value as J};
use sqlgrep::data_model::Tables;
use sqlgrep::model::Statement;

use crate::ast::*;
use crate::eng::{self, EngErr, RowsOut};
use crate::gen::*;
use crate::rng::Rng;
use crate::runner::case_hash;
use crate::val::*;

pub struct Base { pub tables: Tables, pub tables_text: String, pub sql: String, pub lines: Vec<String>, pub joined: Option<Vec<String>>, pub tag: u64 }

pub struct Prepared { pub stmt: Statement, joined_path: Option<PathBuf> }

impl Drop for Prepared { fn drop(&mut self) { if let Some(p) = &self.joined_path { let _ = std::fs::remove_file(p); } } }

pub fn strs(case: &J, key: &str) -> Vec<String> { case[key].as_array().map(|a| a.iter().filter_map(|x| x.as_str().map(|s| s.to_owned())).collect()).unwrap_or_default() }

impl Base {
    pub fn from_case(case: &J) -> Result<Base, String> {
        let tables_text = case["tables"].as_str().unwrap_or("").to_owned();
        let tables = eng::tables_from(&tables_text).map_err(|e| format!("table: {}", e.show()))?;
        Ok(Base { tables, tables_text, sql: case["stmt"].as_str().unwrap_or("").to_owned(), lines: strs(case, "lines"), joined: case["joined"].as_array().map(|_| strs(case, "joined")), tag: case_hash(case) })
    }

    /// parses `sql` (default: the case's statement) with the joined file written to disk; the file lives as long as the result
    pub fn prepare_with(&self, sql: &str, joined: Option<&[String]>, sub: &str) -> Result<Prepared, EngErr> {
        let joined_path = joined.map(|u| eng::write_scratch(&format!("rel-{}-{}.log", self.tag, sub), u.iter().map(|l| format!("{}\n", l)).collect::<String>().as_bytes()));
        let text = sql.replace("@JOINED@", &joined_path.as_ref().map(|p| p.display().to_string()).unwrap_or_default());
        match eng::parse(&text) { Ok(stmt) => Ok(Prepared { stmt, joined_path }), Err(e) => { if let Some(p) = &joined_path { let _ = std::fs::remove_file(p); } Err(e) } }
    }
    pub fn prepare(&self, sub: &str) -> Result<Prepared, EngErr> { self.prepare_with(&self.sql, self.joined.as_deref(), sub) }

    pub fn batch(&self, p: &Prepared, lines: &[String]) -> Result<RowsOut, EngErr> { eng::exec_batch(&self.tables, &p.stmt, lines) }
}

pub fn same_rows(a: &RowsOut, b: &RowsOut, tol: f64) -> bool {
    a.rows.len() == b.rows.len() && a.rows.iter().zip(b.rows.iter()).all(|(x, y)| x.len() == y.len() && x.iter().zip(y.iter()).all(|(p, q)| p.same(q, tol)))
}

/// the two runs execute the same operations in the same order: their outputs are compared as printed (REALs bit for bit)
pub fn identical_rows(a: &RowsOut, b: &RowsOut) -> bool {
    a.rows.len() == b.rows.len() && a.rows.iter().zip(b.rows.iter()).all(|(x, y)| x.len() == y.len() && x.iter().zip(y.iter()).all(|(p, q)| p.identical(q)))
}

/// bit for bit - except group-key columns: which of two equal key values (-0.0 / 0.0) represents a group depends on which
/// aggregate first had a value for it and on whether a result was asked for in between (open finding C04), so keys are
/// compared by value
pub fn identical_rows_keys_by_value(stmt: &Statement, a: &RowsOut, b: &RowsOut) -> bool {
    let key_cols: Vec<usize> = match stmt { Statement::Aggregate(x) => x.aggregates.iter().enumerate().filter(|(_, c)| matches!(c.aggregate, sqlgrep::model::Aggregate::GroupKey(_))).map(|(i, _)| i).collect(), _ => vec![] };
    a.rows.len() == b.rows.len() && a.rows.iter().zip(b.rows.iter()).all(|(x, y)| x.len() == y.len() && x.iter().zip(y.iter()).enumerate().all(|(ci, (p, q))| if key_cols.contains(&ci) { p.same(q, 0.0) } else { p.identical(q) }))
}

pub fn show_rows(r: &RowsOut, n: usize) -> String { format!("{} rows: {}", r.rows.len(), r.rows.iter().take(n).map(|x| show_row(x)).collect::<Vec<_>>().join(" ")) }

#[derive(Clone, Copy, PartialEq, Debug)]
pub enum Shape { Plain, Distinct, Aggregate, Join, JoinAggregate }

pub struct BaseCfg { pub shapes: &'static [Shape], pub allow_limit: bool, pub allow_having: bool, pub agg_distinct: bool, pub order_insensitive_only: bool, pub exact_data: bool, pub min_lines: usize, pub max_lines: usize, pub not_null_column: bool,
    /// one case in `big_rate` is big: `big_lines`/2 .. `big_lines` lines over up to 300 keys (0 = never)
    pub big_rate: u32, pub big_lines: usize }

/// generates table(s), lines and a statement of one of the requested shapes; returns the case fields
pub fn gen_base(rng: &mut Rng, cfg: &BaseCfg) -> (J, StdTable, Sel, Shape) {
    let js = rng.chance(2, 3);
    let allc = rng.chance(1, 2);
    let mut t = std_table(rng, "t", js, allc);
    if cfg.not_null_column {
        // one INT column is declared NOT NULL: lines on which it is NULL are no rows
        let which = if rng.chance(1, 2) { "g" } else { "i" };
        for c in t.spec.cols.iter_mut() { if c.name == which { c.modifier = Modifier::NotNull; } }
        // ... and sometimes another column has a DEFAULT: a line failing NOT NULL is still no row
        if rng.chance(1, 2) { for c in t.spec.cols.iter_mut() { if c.name == "k" { c.modifier = Modifier::Default(E::Str("dflt".into())); } } }
    }
    // a column with a DEFAULT makes every line a row, also empty and non-matching ones
    if !cfg.not_null_column && rng.chance(1, 5) {
        let which = *rng.pick(&["k", "i"]);
        for c in t.spec.cols.iter_mut() { if c.name == which { c.modifier = if which == "k" { Modifier::Default(E::Str("dflt".into())) } else { Modifier::Default(E::Int(7)) }; } }
    }
    let mut dc = DataCfg::random(rng, t.schema.cols.len(), false);
    let mut n = cfg.min_lines + rng.below(cfg.max_lines - cfg.min_lines + 1);
    // size thresholds: many lines, many groups / distinct keys, many values per group
    if cfg.big_rate > 0 && rng.chance(1, cfg.big_rate) { n = cfg.big_lines / 2 + rng.below(cfg.big_lines / 2 + 1); dc.keys = *rng.pick(&[1usize, 3, 40, 300]); }
    // order-insensitive aggregates over integers that are distinct but equal as doubles (few lines: sums stay inside 64 bits)
    let big_ints = cfg.order_insensitive_only && n <= 40 && rng.chance(1, 6);
    if big_ints { dc.big_ints = true; }
    // integers whose squares add up beyond 2^53: STDDEV / VARIANCE / AVG / SUM over INT are exact integer sums until the very
    // last step, so every order of the lines gives the same bits
    let mid_ints = cfg.order_insensitive_only && !big_ints && n <= 40 && rng.chance(1, 8);
    if mid_ints { dc.mid_ints = true; }
    if rng.chance(1, 12) { dc.zeros = true; }
    // REAL values one rounding step apart (distinct keys, distinct MIN / MAX candidates), and whole REALs beyond the 64-bit integers
    let ulp_reals = n <= 40 && rng.chance(1, 10);
    if ulp_reals { dc.ulp_reals = true; }
    // (not where the order of the lines is varied: a sum over 1e300, -1e300 and 1.125 is whatever order it was added in)
    if !ulp_reals && !cfg.order_insensitive_only && rng.chance(1, 16) { dc.huge_reals = true; }
    // plain / DISTINCT / joined rows over integers that are distinct but equal as doubles
    let big_rows = !big_ints && !mid_ints && n <= 40 && rng.chance(1, 8);
    if big_rows { dc.big_ints = true; }
    let mut lines = std_lines(rng, &t, n, &dc);
    // empty lines, blanks and foreign text between the records (rows only where a DEFAULT makes them rows)
    if rng.chance(1, 5) { for _ in 0..(1 + rng.below(4)) { let at = rng.below(lines.len() + 1); lines.insert(at, rng.pick(&["", "", " ", "garbage", "{}", "k="]).to_string()); } }
    let shape = *rng.pick(cfg.shapes);
    let ecfg = ExprCfg { ill_typed: 0, max_depth: 2, ..Default::default() };
    let mut joined: Option<Vec<String>> = None;
    let mut sel = match shape {
        Shape::Aggregate | Shape::JoinAggregate => {
            let acfg = AggCfg { expr: ecfg.clone(), order_insensitive_only: cfg.order_insensitive_only, allow_having: cfg.allow_having, allow_distinct: cfg.agg_distinct, allow_limit: false };
            let mut s = gen_aggregate(rng, &t.schema, &acfg);
            // floating-point sums of squares of 2^53-sized numbers depend on the order of addition by more than any tolerance
            // (and 2^62-sized sums overflow in some orders only): not part of the big-integer cases
            if mid_ints {
                s = Sel { from: "t".into(), group_by: Some(vec![col("k")]), ..Default::default() };
                s.projs = vec![(col("k"), None), (E::Agg("stddev".into(), false, vec![col("i")]), None), (E::Agg("variance".into(), false, vec![col("i")]), Some("v".into())), (E::Agg("avg".into(), false, vec![col("i")]), None), (E::Agg("sum".into(), false, vec![col("i")]), None), (E::Agg("count".into(), false, vec![E::Star]), None)];
            }
            // neighbouring doubles under varied line order: sums and deviations of them cancel to rounding noise, which no tolerance
            // separates from a fault - statements without them
            let ulp_order = ulp_reals && cfg.order_insensitive_only && !mid_ints;
            if big_ints || big_rows || ulp_order {
                let risky = |s: &Sel| crate::gen::big_int_risky(s);
                for _ in 0..20 { if !risky(&s) { break; } s = gen_aggregate(rng, &t.schema, &acfg); }
                if risky(&s) {
                    s = Sel { from: "t".into(), group_by: Some(vec![col("k")]), ..Default::default() };
                    s.projs = vec![(col("k"), None), (E::Agg("min".into(), false, vec![col("i")]), None), (E::Agg("max".into(), false, vec![col("i")]), Some("hi".into())), (E::Agg("count".into(), true, vec![col("i")]), None), (E::Agg("percentile".into(), false, vec![col("i"), E::Real(0.5)]), None)];
                }
            }
            // (not in the bit-for-bit cases: which of -0.0 / 0.0 represents a REAL key depends on the order of arrival)
            if ulp_reals && !mid_ints && t.schema.ty_of("r").is_some() && rng.chance(1, 2) { crate::gen::rekey(&mut s, "r"); }
            s
        }
        _ => { let mut s = gen_select(rng, &t.schema, &StmtCfg { expr: ecfg.clone(), allow_distinct: false, allow_limit: false, allow_star: true, max_limit: 0 }); if shape == Shape::Distinct { s.distinct = true; } s }
    };
    if shape == Shape::Join || shape == Shape::JoinAggregate {
        let un = 1 + rng.below(14);
        let mut ul = std_lines(rng, &t, un, &dc);
        if rng.chance(1, 5) { for _ in 0..(1 + rng.below(3)) { let at = rng.below(ul.len() + 1); ul.insert(at, rng.pick(&["", "", " ", "garbage", "{}"]).to_string()); } }
        // repeated log lines in the joined file: every copy is a partner of its own
        if !ul.is_empty() && rng.chance(1, 3) { for _ in 0..(1 + rng.below(3)) { let l = ul[rng.below(ul.len())].clone(); let at = rng.below(ul.len() + 1); ul.insert(at, l); } }
        joined = Some(ul);
        let key = *rng.pick(&["k", "g"]);
        sel.join = Some(Join { outer: rng.chance(1, 3), table: "u".into(), file: "@JOINED@".into(), left: ("t".into(), key.into()), right: ("u".into(), key.into()) });
        if shape == Shape::Join {
            // conditions on the joined side's columns: some partners of a line yield no row, later ones do
            if rng.chance(1, 2) {
                let c = match rng.below(4) { 0 => bin(">=", col("u.i"), int(rng.range(-2, 8))), 1 => bin("!=", col("u.g"), int(rng.range(0, 4))), 2 => bin("!=", col("u.k"), text(*rng.pick(&["a", "b", ""]))), _ => bin("<", col("u.i"), col("t.i")) };
                sel.filter = Some(match sel.filter.take() { Some(f) => bin(*rng.pick(&["AND", "OR"]), f, c), None => c });
            }
            // ... or are duplicates of rows already emitted
            if rng.chance(1, 4) { sel.distinct = true; }
        }
    }
    let mut u = t.spec.clone(); u.name = "u".into();
    let case = json!({"tables": format!("{} {}", t.spec.text(), u.text()), "stmt": sel.text(Paren::Full), "lines": lines, "joined": joined, "shape": format!("{:?}", shape), "big_ints": big_ints || big_rows, "exact_ints": mid_ints});
    (case, t, sel, shape)
}

/// one or two groups of `nmin..=nmax` lines each and PERCENTILE at fractions off the usual quarter steps: what an implementation
/// does differently beyond some number of values per group (another selection algorithm, another sort) shows here
pub fn gen_percentile_case(rng: &mut Rng, nmin: usize, nmax: usize, zeros: bool) -> J {
    let js = rng.chance(2, 3);
    let t = std_table(rng, "t", js, true);
    let mut dc = DataCfg::random(rng, t.schema.cols.len(), false);
    dc.keys = 1 + rng.below(2);
    dc.zeros = zeros;
    for r in dc.null_rate.iter_mut() { if *r > 300 { *r = 100; } }
    let n = (nmin + rng.below(nmax - nmin + 1)) * dc.keys;
    let lines = std_lines(rng, &t, n, &dc);
    const PS: &[f64] = &[0.1, 0.3, 0.333, 0.5, 0.6, 0.75, 0.9, 0.95, 0.99];
    let mut sel = Sel { from: "t".into(), group_by: Some(vec![col("k")]), ..Default::default() };
    sel.projs = vec![(col("k"), None), (E::Agg("percentile".into(), false, vec![col("r"), E::Real(*rng.pick(PS))]), None), (E::Agg("percentile".into(), false, vec![col("i"), E::Real(*rng.pick(PS))]), Some("pi".into())), (E::Agg("count".into(), false, vec![col("r")]), None), (E::Agg("percentile".into(), false, vec![col("g"), E::Real(*rng.pick(PS))]), Some("pg".into()))];
    json!({"tables": t.spec.text(), "stmt": sel.text(Paren::Full), "lines": lines, "joined": J::Null, "shape": "Aggregate", "big_ints": false, "exact_ints": false})
}

