//! C07 — LIMIT n outputs exactly the first n rows of the unlimited result.

use std::sync::atomic::AtomicBool;
use std::sync::Arc;

use serde_json::{json, Value as J};

use crate::ast::*;
use crate::eng;
use crate::monitors::c12::{remove_files, write_files};
use crate::monitors::relcommon::*;
use crate::rng::Rng;
use crate::runner::*;

pub struct C07;

fn records(printed: &[String]) -> Vec<String> { printed.iter().filter(|l| !l.is_empty()).cloned().collect() }

impl Monitor for C07 {
    fn id(&self) -> &'static str { "C07" }
    fn rule(&self) -> &'static str {
        "case = plain / DISTINCT / aggregate / join (fan-out) / join-aggregate statement over 1-3 files (projections that are NULL on some rows, so NULL-only rows occur); for every n in 0..rows+1 - and for three limits around 2^8 / 2^16 / 2^31 / 2^32 / 2^33 / 2^53 / 2^62 / i64::MAX plus n + 2^32 for a small n, all larger than the result - the statement with LIMIT n is executed through FileExecutor: its records must be the first min(n, rows) records of the unlimited run; a non-aggregate query must not consume input beyond the line that produced its n-th row (none for n = 0), an aggregate query reads everything. Exhaustive over n per case. Non-trivial = the unlimited output has >= 2 rows and 0 < n < rows, or n = 0, or fan-out > 1; distinct by (case, n) hash"
    }
    fn assumptions(&self) -> Vec<String> { vec!["which line produced which row is taken from per-line execution of the unlimited statement (engine boundary)".into()] }
    fn sizes(&self, tier: Tier) -> Sizes { match tier { Tier::Quick => Sizes { cases: 4_000, min_nontrivial: 8_000 }, Tier::Thorough => Sizes { cases: 200_000, min_nontrivial: 400_000 } } }

    fn generate(&self, rng: &mut Rng, _tier: Tier) -> J {
        let (mut case, _t, mut sel, _shape) = gen_base(rng, &BaseCfg { shapes: &[Shape::Plain, Shape::Plain, Shape::Distinct, Shape::Aggregate, Shape::Join, Shape::JoinAggregate], allow_limit: false, allow_having: true, agg_distinct: true, order_insensitive_only: false, exact_data: true, min_lines: 0, max_lines: 14, not_null_column: false, big_rate: 300, big_lines: 600 });
        let n = case["lines"].as_array().map(|a| a.len()).unwrap_or(0);
        let k = 1 + rng.below(3);
        let mut cuts: Vec<usize> = (0..k - 1).map(|_| rng.below(n + 1)).collect();
        cuts.sort();
        case["cuts"] = json!(cuts);
        // DISTINCT over a result table whose keys are not (all) shown: rows repeat, and LIMIT counts the rows that remain
        if sel.group_by.is_some() && rng.chance(1, 5) {
            sel.distinct = true;
            let keys = sel.group_by.clone().unwrap_or_default();
            let hide = if keys.len() >= 2 && rng.chance(1, 2) { vec![keys[0].clone()] } else { keys };
            sel.projs.retain(|(e, _)| !hide.contains(e));
            if sel.projs.is_empty() { sel.projs.push((E::Agg("count".into(), false, vec![E::Star]), None)); }
            if rng.chance(1, 2) { sel.having = None; }
            case["stmt"] = json!(sel.text(Paren::Full));
        }
        case["sel"] = sel.to_json();
        case
    }

    fn check(&self, case: &J, obs: &mut Obs) -> Verdict {
        let base = match Base::from_case(case) { Ok(b) => b, Err(e) => return Verdict::Inconclusive(e) };
        let Some(sel) = Sel::from_json(&case["sel"]) else { return Verdict::Inconclusive("malformed-case".into()) };
        let cuts: Vec<usize> = case["cuts"].as_array().map(|a| a.iter().filter_map(|x| x.as_u64().map(|v| v as usize)).collect()).unwrap_or_default();
        let shape = case["shape"].as_str().unwrap_or("?").to_owned();
        let mut files: Vec<Vec<u8>> = Vec::new();
        let mut prev = 0;
        for &c in cuts.iter().chain(std::iter::once(&base.lines.len())) { let c = c.min(base.lines.len()).max(prev); files.push(base.lines[prev..c].iter().map(|l| format!("{}\n", l)).collect::<String>().into_bytes()); prev = c; }
        let paths = write_files(base.tag, "c07", &files);
        let run = |limit: Option<u64>, sub: &str| -> Result<eng::ExecOut, String> {
            let mut s = sel.clone(); s.limit = limit;
            let p = base.prepare_with(&s.text(Paren::Full), base.joined.as_deref(), sub).map_err(|e| e.show())?;
            Ok(eng::run_executor(&base.tables, &p.stmt, &paths, "json", true, Arc::new(AtomicBool::new(true)), None))
        };
        let full = match run(None, "u") { Ok(o) => o, Err(e) => { remove_files(&paths); return Verdict::Inconclusive(format!("stmt: {}", e.chars().take(40).collect::<String>())); } };
        if full.result.is_err() { remove_files(&paths); return Verdict::Inconclusive("lower-layer-error".into()); }
        let unlimited = records(&full.printed);
        let aggregate = shape.contains("Aggregate");
        // provenance: how many records each line produces (non-aggregates)
        let mut cumulative: Vec<usize> = Vec::new();
        if !aggregate {
            let p = match base.prepare("prov") { Ok(p) => p, Err(_) => { remove_files(&paths); return Verdict::Inconclusive("stmt".into()); } };
            let (outs, err) = eng::exec_lines(&base.tables, &p.stmt, &base.lines, true, true);
            if err.is_some() { remove_files(&paths); return Verdict::Inconclusive("lower-layer-error".into()); }
            let mut acc = 0;
            for o in &outs { acc += o.out.as_ref().map(|r| r.rows.len()).unwrap_or(0); cumulative.push(acc); }
            if acc != unlimited.len() { remove_files(&paths); return Verdict::Inconclusive("provenance-mismatch".into()); }
        }
        let fanout = cumulative.windows(2).any(|w| w[1] - w[0] > 1) || cumulative.first().map(|c| *c > 1).unwrap_or(false);
        obs.hit(&format!("shape:{}", shape)); obs.hit(&format!("files:{}", files.len()));
        if fanout { obs.hit("fan-out"); }
        let mut vs: Vec<Violation> = Vec::new();
        let rows = unlimited.len();
        // every n up to rows + 1; for results of more than 150 rows (big inputs, fan-out of a join) the first and last ones, forty
        // evenly spaced ones and the ones around thirty line boundaries (the work is quadratic in the number of rows otherwise)
        let ns: Vec<u64> = if rows <= 150 { (0..=(rows as u64 + 1)).collect() } else {
            let mut v: Vec<u64> = (0..=8u64).chain((rows as u64 - 3)..=(rows as u64 + 1)).collect();
            let step = (rows / 40).max(1) as u64;
            v.extend((1..40).map(|k| k * step));
            let mut r = Rng::new(base.tag | 1);
            if !cumulative.is_empty() { for _ in 0..30 { let c = cumulative[r.below(cumulative.len())] as u64; v.extend([c.saturating_sub(1), c, c + 1]); } }
            v.retain(|n| *n <= rows as u64 + 1);
            v.sort(); v.dedup();
            obs.hit("limits:sampled");
            v
        };
        // limits beyond every width a count might be narrowed to (8, 16, 31, 32, 53, 63 bits): three of them per case, one of
        // them at or above 2^32 - all of them exceed the result, so the whole unlimited result is due
        let mut ns = ns;
        {
            const WIDE: [u64; 16] = [255, 256, 257, 65_535, 65_536, 65_537, (1 << 31) - 1, 1 << 31, (1 << 32) - 1, 1 << 32, (1 << 32) + 1, (1 << 32) + 3, 1 << 33, 1 << 53, (1 << 62) + 1, i64::MAX as u64];
            let mut r = Rng::new(base.tag ^ 0x51ed);
            let mut extra = vec![WIDE[r.below(WIDE.len())], WIDE[r.below(WIDE.len())], WIDE[9 + r.below(7)]];
            // ... and n + 2^32 for a small n: a count narrowed to 32 bits would stop after n rows
            extra.push((1u64 << 32) + r.below(rows + 2) as u64);
            extra.retain(|n| *n > rows as u64 + 1);
            extra.sort(); extra.dedup();
            if !extra.is_empty() { obs.hit("limits:wide"); }
            ns.extend(extra);
        }
        for n in ns {
            obs.evals += 1;
            let out = match run(Some(n), "l") { Ok(o) => o, Err(e) => { vs.push(Violation::new(format!("limit|{}|statement-rejected", shape), e)); break; } };
            let nclass = if n == 0 { "n=0" } else if (n as usize) < rows { "0<n<rows" } else { "n>=rows" };
            let fclass = if files.len() == 1 { "1-file" } else { "multi-file" };
            if (rows >= 2 && n > 0 && (n as usize) < rows) || n == 0 || fanout { obs.sub(crate::rng::mix(&[base.tag, n])); }
            let mut push = |kind: &str, detail: String, vs: &mut Vec<Violation>| { let sig = format!("limit|{}|{}|{}|{}{}", shape, fclass, nclass, kind, if fanout { "|fan-out" } else { "" }); if !vs.iter().any(|v| v.sig == sig) { vs.push(Violation::new(sig, detail)); } };
            if let Err(e) = &out.result { push("error", format!("LIMIT {}: {}", n, e.show()), &mut vs); continue; }
            let got = records(&out.printed);
            let want: Vec<String> = unlimited.iter().take(n as usize).cloned().collect();
            if got != want {
                let kind = if got.len() > want.len() { "extra-records" } else if got.len() < want.len() { "missing-records" } else { "records-differ" };
                push(kind, format!("{:?} LIMIT {} over {} files: {} records, expected the first {} of {}: got {:?}", base.sql, n, files.len(), got.len(), want.len(), rows, got.iter().take(3).collect::<Vec<_>>()), &mut vs);
            }
            if aggregate && base.lines.len() <= 60 && (n == 1 || n == 2 || n as usize == rows) && out.result.is_ok() {
                // batch mode, the result asked for more than once from the same engine (after a prefix, after all lines, and once
                // more): every one of them is "the first n groups of the full result" of the lines read so far
                let mut s = sel.clone(); s.limit = Some(n);
                if let Ok(p) = base.prepare_with(&s.text(Paren::Full), base.joined.as_deref(), "r") {
                    let cut = (crate::rng::mix(&[base.tag, n]) as usize) % (base.lines.len() + 1);
                    obs.evals += 1;
                    if let (Ok(tables), Ok(prefix), Ok(all)) = (eng::exec_batch_results(&base.tables, &p.stmt, &base.lines, cut), base.batch(&p, &base.lines[..cut]), base.batch(&p, &base.lines)) {
                        obs.hit("limit:result-asked-twice");
                        let wants = [&prefix, &all, &all];
                        for (i, (t, w)) in tables.iter().zip(wants.iter()).enumerate() {
                            if !identical_rows_keys_by_value(&p.stmt, t, w) { push("repeated-result-differs", format!("{:?} LIMIT {}: result no. {} of one engine (prefix of {} lines, then all {}, then again) has {} rows, a fresh batch run over the same lines {}", base.sql, n, i + 1, cut, base.lines.len(), t.rows.len(), w.rows.len()), &mut vs); break; }
                        }
                    }
                }
            }
            if aggregate {
                if out.total_lines != base.lines.len() as u64 { push("aggregate-did-not-read-everything", format!("LIMIT {}: total_lines {} of {}", n, out.total_lines, base.lines.len()), &mut vs); }
            } else {
                let needed = if n == 0 { 0 } else { cumulative.iter().position(|c| *c >= n as usize).map(|p| p + 1).unwrap_or(base.lines.len()) };
                // the quiet mode of the executor (print_result off) consumes the same input and prints nothing
                if let Ok(p) = { let mut s = sel.clone(); s.limit = Some(n); base.prepare_with(&s.text(Paren::Full), base.joined.as_deref(), "q") } {
                    let quiet = eng::run_executor_opts(&base.tables, &p.stmt, &paths, "json", true, Arc::new(AtomicBool::new(true)), None, false);
                    obs.evals += 1;
                    if quiet.result.is_ok() && out.result.is_ok() && (quiet.total_lines != out.total_lines || !quiet.printed.is_empty()) { push("quiet-mode-differs", format!("{:?} LIMIT {}: printing run consumed {} lines, quiet run {} lines and printed {} records", base.sql, n, out.total_lines, quiet.total_lines, quiet.printed.len()), &mut vs); }
                }
                if out.total_lines as usize > needed { push("lines-consumed-beyond-the-nth-row", format!("{:?} LIMIT {}: {} lines consumed, the n-th row comes from line {} (of {})", base.sql, n, out.total_lines, needed, base.lines.len()), &mut vs); }
            }
        }
        remove_files(&paths);
        if vs.is_empty() { Verdict::Held } else { Verdict::Violated(vs) }
    }
}
