//! C18 — output is deterministic and independent of hash seeds.
//! The same case is executed in several fresh processes (fresh SipHash keys) and several times inside one
//! process; all outputs must be byte-identical. A canary HashMap proves that the seeds really varied.

use std::cell::RefCell;
use std::collections::{HashMap, HashSet};
use std::process::{Command, Stdio};
use std::sync::atomic::AtomicBool;
use std::sync::Arc;

use serde_json::{json, Value as J};

use crate::ast::*;
use crate::eng;
use crate::gen::*;
use crate::monitors::c12::{remove_files, write_files};
use crate::rng::Rng;
use crate::runner::*;
use crate::val::Ty;

pub struct C18 { canaries: RefCell<HashSet<String>> }

impl C18 { pub fn new() -> C18 { C18 { canaries: RefCell::new(HashSet::new()) } } }

pub fn canary() -> String {
    let mut m: HashMap<&str, u32> = HashMap::new();
    for (i, k) in ["a", "b", "c", "d", "e", "f", "g", "h", "i", "j", "k", "l"].iter().enumerate() { m.insert(k, i as u32); }
    m.keys().cloned().collect::<Vec<_>>().join("")
}

/// executes the case at the executor boundary and renders everything observable as one string
pub fn run_case_to_string(case: &J, salt: &str) -> String {
    let tag = case_hash(case) ^ crate::rng::fnv1a(salt.as_bytes()) ^ std::process::id() as u64;
    let tables = match eng::tables_from(case["tables"].as_str().unwrap_or("")) { Ok(t) => t, Err(e) => return format!("TABLE-ERROR {}", e.show()) };
    let lines: Vec<String> = case["lines"].as_array().map(|a| a.iter().filter_map(|x| x.as_str().map(|s| s.to_owned())).collect()).unwrap_or_default();
    let joined = case["joined"].as_array().map(|u| {
        let text: String = u.iter().filter_map(|x| x.as_str()).map(|s| format!("{}\n", s)).collect();
        eng::write_scratch(&format!("c18-joined-{}.log", tag), text.as_bytes())
    });
    // the joined file name is part of no output, but keep it stable anyway
    let sql = case["stmt"].as_str().unwrap_or("").replace("@JOINED@", &joined.as_ref().map(|p| p.display().to_string()).unwrap_or_default());
    let out = match eng::parse(&sql) {
        Err(e) => format!("PARSE-ERROR {}", e.show()),
        Ok(stmt) => {
            let bytes: Vec<u8> = lines.iter().map(|l| format!("{}\n", l)).collect::<String>().into_bytes();
            let paths = write_files(tag, "c18", &[bytes]);
            let o = eng::run_executor(&tables, &stmt, &paths, case["format"].as_str().unwrap_or("text"), true, Arc::new(AtomicBool::new(true)), None);
            remove_files(&paths);
            let mut s = o.printed.join("\n");
            if let Err(e) = o.result { s.push_str(&format!("\nERROR {}", match e { eng::EngErr::Err(m) => m, eng::EngErr::Panic(p) => format!("panic {}", p.sig()) })); }
            s
        }
    };
    if let Some(p) = joined { let _ = std::fs::remove_file(p); }
    out
}

fn wide_table(name: &str, ncols: usize) -> (TableSpec, Schema) {
    let mut spec = TableSpec { name: name.to_owned(), patterns: vec![], cols: vec![] };
    let mut cols = Vec::new();
    for i in 0..ncols {
        let (n, t) = match i % 4 { 0 => (format!("k{}", i), Ty::Text), 1 => (format!("i{}", i), Ty::Int), 2 => (format!("r{}", i), Ty::Real), _ => (format!("b{}", i), Ty::Bool) };
        spec.cols.push(ColSpec { name: n.clone(), ty: t.clone(), src: Src::Json(vec![JsonStep::Field(n.clone())]), modifier: Modifier::None });
        cols.push((n, t));
    }
    (spec, Schema { table: name.to_owned(), cols })
}

/// a line whose numbers are few and large: REALs of 2^53 and INTs around it (distinct integers that coincide as doubles), so that
/// a join of a REAL key with an INT key - which pairs nothing today - has several candidates per key should it ever pair by value
fn wide_line_big(rng: &mut Rng, s: &Schema) -> String {
    let mut parts = Vec::new();
    for (n, t) in &s.cols {
        let v = match t {
            Ty::Text => json_str(&format!("g{}", rng.below(3))),
            Ty::Int => rng.pick(&["9007199254740992", "9007199254740993", "3", "4", "9007199254740994"]).to_string(),
            Ty::Real => rng.pick(&["9007199254740992.0", "3.0", "4.0", "9007199254740994.0"]).to_string(),
            _ => rng.chance(1, 2).to_string(),
        };
        parts.push(format!("{}:{}", json_str(n), v));
    }
    format!("{{{}}}", parts.join(","))
}

fn wide_line(rng: &mut Rng, s: &Schema, groups: usize) -> String {
    let mut parts = Vec::new();
    for (n, t) in &s.cols {
        if rng.chance(1, 10) { continue; }
        let v = match t {
            Ty::Text => json_str(&format!("g{}", rng.below(groups))),
            Ty::Int => rng.range(0, groups as i64).to_string(),
            Ty::Real => fmt_json_real(rng.range(-16, 16) as f64 / 8.0),
            _ => rng.chance(1, 2).to_string(),
        };
        parts.push(format!("{}:{}", json_str(n), v));
    }
    format!("{{{}}}", parts.join(","))
}

/// thousands of lines: collections that an implementation may treat differently above some size (arrays of thousands of
/// elements handed to array_unique, distinct sets, hundreds of groups)
fn large_case(rng: &mut Rng, variant: usize) -> J {
    let (spec, schema) = wide_table("t", 4);
    let n = 5000 + rng.below(4000);
    let distinct = *rng.pick(&[12usize, 300, 5000]);
    let lines: Vec<String> = (0..n).map(|_| wide_line(rng, &schema, distinct)).collect();
    let stmt = match variant % 4 {
        0 => "SELECT array_unique ( array_agg ( i1 ) ) AS u , count ( DISTINCT i1 ) AS c FROM t",
        1 => "SELECT k0 , array_unique ( array_agg ( i1 ) ) AS u , count ( DISTINCT r2 ) AS c FROM t GROUP BY k0",
        2 => "SELECT DISTINCT i1 , k0 FROM t",
        _ => "SELECT i1 , count ( * ) AS n , array_unique ( array_agg ( k0 ) ) AS u FROM t GROUP BY i1",
    };
    json!({"tables": spec.text(), "stmt": stmt, "lines": lines, "joined": null, "format": *rng.pick(&["text", "json", "csv"]), "large": true})
}

impl Monitor for C18 {
    fn id(&self) -> &'static str { "C18" }
    fn rule(&self) -> &'static str {
        "each case (wide `*` projections over 12-16 columns, 4-8 aggregates per group over 20-60 groups, join buckets with many duplicates, HAVING over several keys, COUNT(DISTINCT), array_unique, 1-8 unrelated tables and sometimes tables whose names differ only in letter case defined alongside, all output formats) is executed in 5 fresh processes and 3 times in-process; oracle = byte identity of everything printed. A 12-key canary HashMap is iterated in every process; the run is inconclusive unless >= 2 distinct canary orders were seen. Non-trivial = output has >= 5 records and >= 6 columns or groups; distinct by case hash"
    }
    fn assumptions(&self) -> Vec<String> { vec!["now() is never generated".into()] }
    fn sizes(&self, tier: Tier) -> Sizes { match tier { Tier::Quick => Sizes { cases: 480, min_nontrivial: 150 }, Tier::Thorough => Sizes { cases: 12_000, min_nontrivial: 3_000 } } }

    fn exhaustive_note(&self) -> Option<String> { Some("two large cases in every run: array_unique(array_agg(..)), COUNT(DISTINCT), GROUP BY over 5000-9000 lines (kind=large)".into()) }

    fn enumerate(&self, _tier: Tier, emit: &mut dyn FnMut(J)) {
        let mut rng = Rng::new(0x18_18);
        for i in 0..2 { emit(large_case(&mut rng, i)); }
    }

    fn generate(&self, rng: &mut Rng, tier: Tier) -> J {
        if rng.chance(1, if tier == Tier::Thorough { 150 } else { 400 }) { let v = rng.below(4); return large_case(rng, v); }
        let ncols = 12 + rng.below(5);
        // sometimes tables whose names differ from the queried one only in letter case are defined alongside, and the
        // statement may spell the name in yet another way (which resolves to nothing: an error, the same in every run)
        let near_names = rng.chance(1, 4);
        let main = if near_names { "tab" } else { "t" };
        let (spec, schema) = wide_table(main, ncols);
        let groups = 20 + rng.below(40);
        let n = 30 + rng.below(120);
        let mut lines: Vec<String> = (0..n).map(|_| wide_line(rng, &schema, groups)).collect();
        let mut defs = vec![spec.text()];
        let extra = 1 + rng.below(8);
        for e in 0..extra { let (s, _) = wide_table(&format!("other{}", e), 3 + rng.below(4)); defs.push(s.text()); }
        let mut joined: Option<Vec<String>> = None;
        let texts = schema.of(&Ty::Text); let ints = schema.of(&Ty::Int); let reals = schema.of(&Ty::Real); let bools = schema.of(&Ty::Bool);
        if near_names { for name in ["Tab", "TAB", "tAb"] { if rng.chance(2, 3) { let (s, _) = wide_table(name, 3 + rng.below(4)); defs.push(s.text()); } } }
        let mut sel = Sel { from: main.into(), ..Default::default() };
        match rng.below(5) {
            0 => {
                sel.projs.push((E::Star, None));
                if rng.chance(1, 2) { sel.filter = Some(bin(">=", col(ints[0]), int(rng.range(0, 10)))); }
                // a list whose later entries cannot be compared with the operand: which rows fail must not vary between runs
                else if rng.chance(1, 2) { sel.filter = Some(E::In(rng.chance(1, 3), b(col(ints[0])), vec![int(rng.range(0, 20)), int(rng.range(0, 20)), text("OK"), int(rng.range(0, 20)), E::Bool(true)])); }
            }
            1 | 2 => {
                let k1 = col(*rng.pick(&texts)); let k2 = col(*rng.pick(&ints));
                let keys = if rng.chance(1, 2) { vec![k1.clone(), k2.clone()] } else { vec![k1.clone()] };
                sel.group_by = Some(keys.clone());
                for k in &keys { sel.projs.push((k.clone(), None)); }
                // usually several aggregates; sometimes a single one next to hidden HAVING aggregates
                let single = rng.chance(1, 5);
                let nagg = if single { 1 } else { 4 + rng.below(5) };
                for i in 0..nagg {
                    // (9-11: arguments whose values have different types from row to row - whatever an aggregate makes of them,
                    // a value or an error, and whichever of several such aggregates reports first, is the same in every run)
                    let mixed = |rng: &mut Rng, int_first: bool| { let (i, t) = (col(*rng.pick(&ints)), col(*rng.pick(&texts))); E::Case(vec![(bin(">=", col(*rng.pick(&ints)), int(rng.range(0, 12))), if int_first { i.clone() } else { t.clone() })], b(if int_first { t } else { i })) };
                    let a = match rng.below(12) {
                        9 => E::Agg("array_agg".into(), false, vec![mixed(rng, true)]),
                        10 => E::Agg("array_agg".into(), false, vec![mixed(rng, false)]),
                        11 => E::Agg(rng.pick(&["min", "max", "sum"]).to_string(), false, vec![{ let f = rng.chance(1, 2); mixed(rng, f) }]),
                        0 => E::Agg("count".into(), false, vec![E::Star]),
                        1 => E::Agg("count".into(), true, vec![col(*rng.pick(&ints))]),
                        2 => E::Agg("sum".into(), false, vec![col(*rng.pick(&ints))]),
                        3 => E::Agg("min".into(), false, vec![col(*rng.pick(&reals))]),
                        4 => E::Agg("max".into(), false, vec![col(*rng.pick(&ints))]),
                        5 => E::Agg("avg".into(), false, vec![col(*rng.pick(&reals))]),
                        6 => E::Agg("array_agg".into(), false, vec![call("array_unique", vec![E::ArrayLit(vec![col(*rng.pick(&ints)), col(*rng.pick(&ints)), int(1)])])]),
                        7 => E::Agg("bool_or".into(), false, vec![col(*rng.pick(&bools))]),
                        _ => E::Agg("percentile".into(), false, vec![col(*rng.pick(&ints)), E::Real(0.5)]),
                    };
                    sel.projs.push((a, Some(format!("a{}", i))));
                }
                if single { sel.having = Some(bin(">=", E::Agg("max".into(), false, vec![col(*rng.pick(&ints))]), int(rng.range(0, 10)))); }
                else if rng.chance(1, 2) { sel.having = Some(bin("AND", bin(">", E::Agg("count".into(), false, vec![E::Star]), int(0)), bin("!=", k1, text("g0")))); }
                // several hidden aggregates in HAVING: which value belongs to which must not depend on a map's iteration order
                else if rng.chance(1, 2) { sel.having = Some(bin("AND", bin(">=", E::Agg("count".into(), false, vec![E::Star]), int(2)), bin("OR", bin("<", E::Agg("sum".into(), false, vec![col(*rng.pick(&ints))]), int(60)), bin(">", E::Agg("max".into(), false, vec![col(*rng.pick(&ints))]), int(25))))); }
            }
            3 => {
                let (mut uspec, uschema) = wide_table("u", 6);
                uspec.name = "u".into();
                defs.push(uspec.text());
                let un = 20 + rng.below(60);
                joined = Some((0..un).map(|_| wide_line(rng, &uschema, 6)).collect());
                sel.projs.push((E::Star, None));
                sel.join = Some(Join { outer: rng.chance(1, 3), table: "u".into(), file: "@JOINED@".into(), left: (main.into(), "k0".into()), right: ("u".into(), "k0".into()) });
                // sometimes the keys are numbers of different types (REAL on one side, INT on the other), few and large
                if rng.chance(1, 3) {
                    joined = Some((0..un).map(|_| wide_line_big(rng, &uschema)).collect());
                    lines = (0..n).map(|_| wide_line_big(rng, &schema)).collect();
                    let (l, r) = if rng.chance(1, 2) { ("r2", "i1") } else { ("i1", "r2") };
                    sel.join = Some(Join { outer: rng.chance(1, 2), table: "u".into(), file: "@JOINED@".into(), left: (main.into(), l.into()), right: ("u".into(), r.into()) });
                }
            }
            _ => {
                sel.distinct = true;
                let np = 3 + rng.below(4);
                for _ in 0..np { let c = &schema.cols[rng.below(schema.cols.len())]; sel.projs.push((col(&c.0), None)); }
                sel.projs.push((call("array_unique", vec![E::ArrayLit(vec![col(ints[0]), col(ints[1 % ints.len()]), int(3), int(3)])]), Some("u".into())));
            }
        }
        if near_names && rng.chance(1, 2) { sel.from = "TaB".into(); if let Some(j) = sel.join.as_mut() { j.left.0 = "TaB".into(); } }
        rng.shuffle(&mut defs);
        json!({"tables": defs.join(" "), "stmt": sel.text(Paren::Full), "lines": lines, "joined": joined, "format": *rng.pick(&["text", "json", "csv"])})
    }

    fn check(&self, case: &J, obs: &mut Obs) -> Verdict {
        let base = match guard(|| run_case_to_string(case, "in0")) { Ok(s) => s, Err(p) => return Verdict::Violated(vec![Violation::new(p.sig(), p.describe())]) };
        if base.starts_with("TABLE-ERROR") || base.starts_with("PARSE-ERROR") { return Verdict::Inconclusive(base.chars().take(50).collect()); }
        let records = base.lines().filter(|l| !l.is_empty()).count();
        let stmt = case["stmt"].as_str().unwrap_or("");
        let shape = if stmt.contains("JOIN") { "join" } else if stmt.contains("GROUP BY") { "aggregate" } else if stmt.contains("DISTINCT") { "distinct" } else { "star" };
        obs.hit(&format!("shape:{}", shape));
        if records >= 5 && !base.contains("\nERROR") { obs.nontrivial(); }
        if base.contains("\nERROR") { obs.hit("ends-with-error"); }
        let mut vs = Vec::new();
        for i in 1..3 {
            let again = run_case_to_string(case, &format!("in{}", i));
            obs.evals += 1;
            if again != base { vs.push(Violation::new(format!("determinism|in-process|{}", shape), diff_detail(&base, &again))); break; }
        }
        // fresh processes
        let path = eng::write_scratch(&format!("c18-case-{}.json", case_hash(case)), serde_json::to_string(case).unwrap().as_bytes());
        let exe = std::env::current_exe().expect("current_exe");
        let mut children = Vec::new();
        for _ in 0..5 {
            if let Ok(c) = Command::new(&exe).arg("run-case").arg(&path).stdin(Stdio::null()).stdout(Stdio::piped()).stderr(Stdio::null()).env("TZ", "UTC").spawn() { children.push(c); }
        }
        let mut seen = 0;
        for c in children {
            let Ok(o) = c.wait_with_output() else { continue };
            let text = String::from_utf8_lossy(&o.stdout).into_owned();
            let Some((first, rest)) = text.split_once('\n') else { continue };
            let Some(can) = first.strip_prefix("#canary ") else { continue };
            self.canaries.borrow_mut().insert(can.to_owned());
            seen += 1;
            obs.evals += 1;
            let rest = rest.strip_suffix('\n').unwrap_or(rest);
            if rest != base && vs.is_empty() { vs.push(Violation::new(format!("determinism|fresh-process|{}", shape), diff_detail(&base, rest))); }
        }
        let _ = std::fs::remove_file(&path);
        if seen < 3 { return Verdict::Inconclusive("child-processes-failed".into()); }
        if vs.is_empty() { Verdict::Held } else { Verdict::Violated(vs) }
    }

    fn extra_evidence(&self) -> J {
        let c = self.canaries.borrow();
        json!({"distinct_canary_orders": c.len(), "canary_orders_sample": c.iter().take(6).cloned().collect::<Vec<_>>()})
    }
}

fn diff_detail(a: &str, b: &str) -> String {
    let la: Vec<&str> = a.lines().collect(); let lb: Vec<&str> = b.lines().collect();
    let at = la.iter().zip(lb.iter()).position(|(x, y)| x != y).unwrap_or(la.len().min(lb.len()));
    format!("outputs differ at line {} of {}/{}: {:?} vs {:?}", at, la.len(), lb.len(), la.get(at).map(|s| s.chars().take(160).collect::<String>()), lb.get(at).map(|s| s.chars().take(160).collect::<String>()))
}
