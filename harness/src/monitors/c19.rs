//! C19 — interrupting a query stops it promptly and leaves consistent output.
//! The `running` flag is cleared (a) by the `batch_line` hook at an exact line index of the main loop or of the
//! joined-file loader, (b) by the recording printer after its n-th record, (c) by a real thread (thorough).

use std::cell::RefCell;
use std::path::PathBuf;
use std::rc::Rc;
use std::sync::atomic::{AtomicBool, Ordering};
use std::sync::Arc;

use serde_json::{json, Value as J};
use sqlgrep::data_model::Tables;
use sqlgrep::model::Statement;
use sqlgrep::verif_hooks::{set_batch_line, BatchLoop};

use crate::ast::*;
use crate::eng;
use crate::gen::*;
use crate::monitors::c12::{remove_files, write_files};
use crate::rng::Rng;
use crate::runner::*;

pub struct C19;

struct Setup { tables: Tables, stmt: Statement, files: Vec<Vec<String>>, joined: Option<PathBuf>, tag: u64, aggregate: bool }

/// marker for a line that is not valid UTF-8 (cases are JSON texts): written to the file as the bytes FF FE
pub const BAD_LINE: &str = "\u{1}not-utf8";
fn file_bytes(lines: &[String]) -> Vec<u8> {
    let mut out = Vec::new();
    for l in lines { if l == BAD_LINE { out.extend_from_slice(&[0xff, 0xfe, b'x']); } else { out.extend_from_slice(l.as_bytes()); } out.push(b'\n'); }
    out
}

/// the first `m` lines of the input, keeping the file structure
fn truncate(files: &[Vec<String>], m: usize) -> Vec<Vec<String>> {
    let mut left = m;
    let mut out = Vec::new();
    for f in files { let take = left.min(f.len()); out.push(f[..take].to_vec()); left -= take; }
    out
}

fn run(setup: &Setup, files: &[Vec<String>], running: Arc<AtomicBool>, stop_after: Option<usize>, sub: &str) -> eng::ExecOut {
    let bytes: Vec<Vec<u8>> = files.iter().map(|f| file_bytes(f)).collect();
    let paths = write_files(setup.tag, &format!("c19{}", sub), &bytes);
    let out = eng::run_executor(&setup.tables, &setup.stmt, &paths, "json", true, running, stop_after);
    remove_files(&paths);
    out
}

fn prepare(case: &J) -> Result<Setup, String> {
    let tag = case_hash(case);
    let tables = eng::tables_from(case["tables"].as_str().unwrap_or("")).map_err(|e| format!("table: {}", e.show()))?;
    let files: Vec<Vec<String>> = case["files"].as_array().map(|a| a.iter().map(|f| f.as_array().map(|l| l.iter().filter_map(|x| x.as_str().map(|s| s.to_owned())).collect()).unwrap_or_default()).collect()).unwrap_or_default();
    let joined = case["joined"].as_array().map(|u| {
        let lines: Vec<String> = u.iter().filter_map(|x| x.as_str().map(|s| s.to_owned())).collect();
        eng::write_scratch(&format!("c19-joined-{}.log", tag), &file_bytes(&lines))
    });
    let sql = case["stmt"].as_str().unwrap_or("").replace("@JOINED@", &joined.as_ref().map(|p| p.display().to_string()).unwrap_or_default());
    let stmt = match eng::parse(&sql) { Ok(s) => s, Err(e) => { if let Some(p) = &joined { let _ = std::fs::remove_file(p); } return Err(format!("stmt: {}", e.show().chars().take(80).collect::<String>())); } };
    let aggregate = stmt.is_aggregate();
    Ok(Setup { tables, stmt, files, joined, tag, aggregate })
}

pub fn gen_case(rng: &mut Rng, kind: &str) -> J { gen_case_opts(rng, kind, false) }

pub fn gen_case_opts(rng: &mut Rng, kind: &str, big_joined: bool) -> J {
    let js = rng.chance(2, 3);
    let t = std_table(rng, "t", js, false);
    let dc = DataCfg::random(rng, t.schema.cols.len(), false);
    let nfiles = 1 + rng.below(3);
    let mut files: Vec<Vec<String>> = (0..nfiles).map(|_| { let n = rng.below(9); std_lines(rng, &t, n, &dc) }).collect();
    if rng.chance(1, 6) { for f in files.iter_mut() { for l in f.iter_mut() { if rng.chance(1, 5) { *l = BAD_LINE.to_owned(); } } } }
    let ecfg = ExprCfg { ill_typed: 0, max_depth: 2, ..Default::default() };
    let shape = if big_joined { 1 + rng.below(2) } else { rng.below(4) };
    let mut joined: Option<Vec<String>> = None;
    let stmt = match shape {
        0 => gen_aggregate(rng, &t.schema, &AggCfg { expr: ecfg.clone(), allow_having: true, ..Default::default() }),
        1 | 2 => {
            let mut s = if shape == 1 { gen_select(rng, &t.schema, &StmtCfg { expr: ecfg.clone(), ..Default::default() }) } else { gen_aggregate(rng, &t.schema, &AggCfg { expr: ecfg.clone(), allow_having: false, ..Default::default() }) };
            let big = rng.chance(1, 3);
            // a joined file of thousands of lines (a loader may sample the flag differently far into the file)
            let un = if big_joined || rng.chance(1, 400) { 2100 + rng.below(2500) } else { 1 + rng.below(if big { 46 } else { 30 }) };
            let mut ulines = std_lines(rng, &t, un, &dc);
            // the loader skips lines that are not valid UTF-8; they are put at any index, preferably where it samples the flag
            if rng.chance(1, 3) { for (i, l) in ulines.iter_mut().enumerate() { if rng.chance(1, 12) || (i % 10 == 0 && rng.chance(1, 2)) { *l = BAD_LINE.to_owned(); } } }
            joined = Some(ulines);
            s.join = Some(Join { outer: rng.chance(1, 3), table: "u".into(), file: "@JOINED@".into(), left: ("t".into(), "k".into()), right: ("u".into(), "k".into()) });
            s
        }
        _ => gen_select(rng, &t.schema, &StmtCfg { expr: ecfg.clone(), ..Default::default() }),
    };
    let mut u = t.spec.clone(); u.name = "u".into();
    json!({"kind": kind, "tables": format!("{} {}", t.spec.text(), u.text()), "stmt": stmt.text(Paren::Full), "files": files, "joined": joined})
}

impl Monitor for C19 {
    fn exhaustive_note(&self) -> Option<String> { Some("one case with a joined file of more than 2000 lines in every run (sampled interrupt points)".into()) }
    fn enumerate(&self, _tier: Tier, emit: &mut dyn FnMut(J)) {
        // a join whose joined file has thousands of lines
        let mut rng = Rng::new(0x1919);
        emit(gen_case_opts(&mut rng, "points", true));
    }
    fn id(&self) -> &'static str { "C19" }
    fn rule(&self) -> &'static str {
        "per generated case (plain / DISTINCT / join fan-out / aggregate statement, 1-3 files): every interrupt point is tried - the flag cleared by the batch_line hook before each main-loop line index, at each joined-file loader line, and by the printer after each record index; oracle: Ok result, total_lines = lines consumed before the clear, output = uninterrupted run over exactly those lines, at most 10 more joined-file lines. Thorough adds a real interrupter thread and SIGINT to the CLI. Non-trivial = interrupt point strictly inside the input; distinct by (case, point) hash"
    }
    fn assumptions(&self) -> Vec<String> { vec!["'consumed' = presented to the query (statistics.total_lines); the reader may have fetched one more line which it discards".into()] }
    fn sizes(&self, tier: Tier) -> Sizes { match tier { Tier::Quick => Sizes { cases: 2_500, min_nontrivial: 3_000 }, Tier::Thorough => Sizes { cases: 60_000, min_nontrivial: 50_000 } } }

    fn generate(&self, rng: &mut Rng, tier: Tier) -> J {
        if rng.chance(1, 250) {
            // follow mode with a backlog: the file already holds many complete lines (head), the interrupt arrives from another thread
            // while they are being worked off
            return json!({"kind": "follow-backlog", "backlog_lines": 120_000 + rng.below(60_000), "interrupt_delay_us": 500 + rng.below(6000), "head": true, "chunks": []});
        }
        if rng.chance(1, 12) {
            // follow mode: lines arriving after the interrupt would fail to evaluate (division by zero) or are filtered out
            let n_pre = rng.below(6);
            let pre: Vec<String> = (0..n_pre).map(|_| format!("i={}", rng.range(1, 9))).collect();
            let post: Vec<String> = match rng.below(3) { 0 => vec!["i=0".into(), "i=3".into()], 1 => (0..(2 + rng.below(4))).map(|_| format!("i={}", rng.range(1, 9))).collect(), _ => vec!["i=4".into(), "i=0".into(), "i=0".into()] };
            let stmt = *rng.pick(&["SELECT i FROM t WHERE ( 100 / i ) > 1000", "SELECT ( 100 / i ) FROM t WHERE ( 100 / i ) > 1000", "SELECT DISTINCT i FROM t WHERE ( 100 / i ) > 1000 LIMIT 3"]);
            return json!({"kind": "follow", "tables": "CREATE TABLE t ( line = 'i=(-?[0-9]+)' , line [ 1 ] => i INT ) ;", "stmt": stmt, "pre": pre, "post": post});
        }
        let kind = if tier == Tier::Thorough { match rng.below(20) { 0 | 1 => "thread", 2 if eng::cli_path().is_some() => "cli", _ => "points" } } else { "points" };
        if kind == "cli" {
            let n = 20_000 + rng.below(100_000);
            return json!({"kind": "cli", "lines": n, "delay_us": rng.below(40_000), "aggregate": rng.chance(1, 3)});
        }
        gen_case(rng, kind)
    }

    fn check(&self, case: &J, obs: &mut Obs) -> Verdict {
        let kind = case["kind"].as_str().unwrap_or("");
        obs.hit(&format!("kind:{}", kind));
        if kind == "cli" { return check_cli(case, obs); }
        if kind == "follow" { return check_follow(case, obs); }
        if kind == "follow-backlog" { return check_follow_backlog(case, obs); }
        let setup = match prepare(case) { Ok(s) => s, Err(e) => return Verdict::Inconclusive(e.chars().take(40).collect()) };
        let v = if kind == "thread" { check_thread(&setup, obs) } else { check_points(&setup, obs) };
        if let Some(p) = &setup.joined { let _ = std::fs::remove_file(p); }
        v
    }
}

fn check_points(setup: &Setup, obs: &mut Obs) -> Verdict {
    let total: usize = setup.files.iter().map(|f| f.len()).sum();
    let full = run(setup, &setup.files, Arc::new(AtomicBool::new(true)), None, "f");
    if full.result.is_err() { return Verdict::Inconclusive("lower-layer-error".into()); }
    obs.hit(if setup.aggregate { "stmt:aggregate" } else { "stmt:select" });
    if setup.joined.is_some() { obs.hit("stmt:join"); }
    let mut vs: Vec<Violation> = Vec::new();
    let mut push = |v: Violation, vs: &mut Vec<Violation>| { if !vs.iter().any(|x| x.sig == v.sig) { vs.push(v); } };
    let stype = if setup.aggregate { "aggregate" } else { "select" };
    // reference outputs over the first m lines, computed on demand
    let mut refs: Vec<Option<eng::ExecOut>> = (0..=total).map(|_| None).collect();
    let mut reference = |m: usize, refs: &mut Vec<Option<eng::ExecOut>>| -> (Vec<String>, bool) {
        if refs[m].is_none() { refs[m] = Some(run(setup, &truncate(&setup.files, m), Arc::new(AtomicBool::new(true)), None, "r")); }
        let r = refs[m].as_ref().unwrap();
        (r.printed.clone(), r.result.is_ok())
    };

    // (a) flag cleared by the hook right before main-loop line i is looked at
    for i in 0..=total {
        let pulled_after = Rc::new(RefCell::new(0usize));
        let pa = pulled_after.clone();
        set_batch_line(Some(Box::new(move |which, index, running| {
            if which == BatchLoop::Main {
                if index == i { running.store(false, Ordering::SeqCst); }
                if index > i { *pa.borrow_mut() += 1; }
            }
        })));
        let out = run(setup, &setup.files, Arc::new(AtomicBool::new(true)), None, "a");
        set_batch_line(None);
        obs.evals += 1;
        if i > 0 && i < total { obs.sub(crate::rng::mix(&[setup.tag, 1, i as u64])); }
        let (want, ref_ok) = reference(i.min(total), &mut refs);
        if !ref_ok { continue; }
        if let Err(e) = &out.result { push(Violation::new(format!("interrupt|main|{}|error-reported", stype), format!("flag cleared before line {}: {}", i, e.show())), &mut vs); continue; }
        // lines that are not valid UTF-8 are skipped without being presented to the query
        let presented = setup.files.iter().flatten().take(i.min(total)).filter(|l| l.as_str() != BAD_LINE).count();
        if out.total_lines != presented as u64 { push(Violation::new(format!("interrupt|main|{}|lines-consumed-after-clear", stype), format!("flag cleared before line {} of {}: total_lines = {}", i, total, out.total_lines)), &mut vs); }
        // every remaining file may have had one line fetched and discarded, never more
        if *pulled_after.borrow() > setup.files.len() { push(Violation::new(format!("interrupt|main|{}|reader-kept-pulling", stype), format!("flag cleared before line {}: {} more lines pulled from the reader", i, pulled_after.borrow())), &mut vs); }
        if out.printed != want { push(Violation::new(format!("interrupt|main|{}|output-differs", stype), format!("flag cleared before line {} of {}: printed {:?}, a run over exactly the first {} lines prints {:?}", i, total, out.printed.iter().take(4).collect::<Vec<_>>(), i, want.iter().take(4).collect::<Vec<_>>())), &mut vs); }
    }

    // (a0) the flag is already cleared when execute() is entered (the interrupt arrived while the statement was prepared)
    {
        let out = run(setup, &setup.files, Arc::new(AtomicBool::new(false)), None, "z");
        obs.evals += 1;
        let (want, ref_ok) = reference(0, &mut refs);
        if ref_ok {
            if let Err(e) = &out.result { push(Violation::new(format!("interrupt|before-start|{}|error-reported", stype), e.show()), &mut vs); }
            else {
                if out.total_lines != 0 { push(Violation::new(format!("interrupt|before-start|{}|lines-consumed", stype), format!("the flag was cleared before execute() was called, yet {} of {} lines were consumed", out.total_lines, total)), &mut vs); }
                if out.printed != want { push(Violation::new(format!("interrupt|before-start|{}|output-differs", stype), format!("the flag was cleared before execute() was called: printed {:?}, a run over no lines prints {:?}", out.printed.iter().take(3).collect::<Vec<_>>(), want.iter().take(3).collect::<Vec<_>>())), &mut vs); }
            }
        }
    }

    // (b) flag cleared while the joined file is loaded
    if let Some(jp) = &setup.joined {
        let jn = std::fs::read(jp).map(|s| s.iter().filter(|b| **b == b'\n').count()).unwrap_or(0);
        // every loader line is an interrupt point; for files of hundreds of lines a sample: the start, every 97th, the end
        let points: Vec<usize> = if jn <= 120 { (0..jn).collect() } else { let mut p: Vec<usize> = vec![0, 1, 5, 9, 10, 11, 19, 20, 21, 99, 100, 101]; p.extend((120..jn).step_by(97)); p.extend([jn - 12, jn - 2, jn - 1]); p.sort(); p.dedup(); p };
        if jn > 120 { obs.hit("joined-file>120-lines"); }
        if jn > 2000 { obs.hit("joined-file>2000-lines"); }
        for j in points {
            let after = Rc::new(RefCell::new(0usize));
            let a2 = after.clone();
            set_batch_line(Some(Box::new(move |which, index, running| {
                if which == BatchLoop::Joined {
                    if index == j { running.store(false, Ordering::SeqCst); }
                    if index > j { *a2.borrow_mut() += 1; }
                }
            })));
            let out = run(setup, &setup.files, Arc::new(AtomicBool::new(true)), None, "b");
            set_batch_line(None);
            obs.evals += 1;
            if j > 0 { obs.sub(crate::rng::mix(&[setup.tag, 2, j as u64])); }
            let (want, ref_ok) = reference(0, &mut refs);
            if !ref_ok { continue; }
            if let Err(e) = &out.result { push(Violation::new(format!("interrupt|joined|{}|error-reported", stype), format!("flag cleared at joined line {}: {}", j, e.show())), &mut vs); continue; }
            if *after.borrow() > 10 { push(Violation::new(format!("interrupt|joined|{}|more-than-ten-lines", stype), format!("flag cleared at joined line {} of {}: {} more lines read by the loader", j, jn, after.borrow())), &mut vs); }
            if out.total_lines != 0 { push(Violation::new(format!("interrupt|joined|{}|main-lines-consumed", stype), format!("flag cleared at joined line {}: main loop consumed {} lines", j, out.total_lines)), &mut vs); }
            if out.printed != want { push(Violation::new(format!("interrupt|joined|{}|output-differs", stype), format!("flag cleared at joined line {}: printed {:?}, expected {:?}", j, out.printed.iter().take(3).collect::<Vec<_>>(), want.iter().take(3).collect::<Vec<_>>())), &mut vs); }
        }
    }

    // (c) flag cleared by the printer after its n-th record (non-aggregates print while reading)
    if !setup.aggregate {
        let nrec = full.printed.iter().filter(|l| !l.is_empty()).count();
        // every record index; for outputs of hundreds of records (fan-out over a big joined file) a sample
        let record_points: Vec<usize> = if nrec <= 60 { (1..=nrec).collect() } else { let mut p: Vec<usize> = vec![1, 2, 3, 10, 11]; p.extend((12..nrec).step_by(nrec / 12 + 1)); p.extend([nrec - 1, nrec]); p.sort(); p.dedup(); p };
        for n in record_points {
            let out = run(setup, &setup.files, Arc::new(AtomicBool::new(true)), Some(n), "c");
            obs.evals += 1;
            if n < nrec { obs.sub(crate::rng::mix(&[setup.tag, 3, n as u64])); }
            // smallest m whose uninterrupted run prints >= n records
            let mut m = 0;
            let mut want = Vec::new();
            let mut ok = true;
            while m <= total {
                let (w, ref_ok) = reference(m, &mut refs);
                if !ref_ok { ok = false; break; }
                if w.iter().filter(|l| !l.is_empty()).count() >= n { want = w; break; }
                m += 1;
            }
            if !ok || m > total { continue; }
            if let Err(e) = &out.result { push(Violation::new("interrupt|printer|select|error-reported", format!("flag cleared after record {}: {}", n, e.show())), &mut vs); continue; }
            let presented = setup.files.iter().flatten().take(m).filter(|l| l.as_str() != BAD_LINE).count();
            if out.total_lines != presented as u64 { push(Violation::new("interrupt|printer|select|lines-consumed-after-clear", format!("flag cleared after record {} (produced by line {}): total_lines = {}", n, m, out.total_lines)), &mut vs); }
            if out.printed != want { push(Violation::new("interrupt|printer|select|output-differs", format!("flag cleared after record {}: printed {} records, expected the {} records of the first {} lines", n, out.printed.len(), want.len(), m)), &mut vs); }
        }
    }
    if vs.is_empty() { Verdict::Held } else { Verdict::Violated(vs) }
}

/// a real thread clears the flag after a random spin; whatever point it hits, the output must be the
/// uninterrupted output over exactly the lines consumed
fn check_thread(setup: &Setup, obs: &mut Obs) -> Verdict {
    let mut vs = Vec::new();
    for round in 0..8u64 {
        let running = Arc::new(AtomicBool::new(true));
        let r2 = running.clone();
        let spin = (setup.tag.rotate_left(round as u32 * 7) % 4000) as u32;
        let th = std::thread::spawn(move || { for _ in 0..spin { std::hint::spin_loop(); } r2.store(false, Ordering::SeqCst); });
        let out = run(setup, &setup.files, running, None, "t");
        let _ = th.join();
        obs.evals += 1;
        // total_lines counts the lines presented to the query: map it back to an index into the files (skipped lines that are not valid UTF-8)
        let m = { let mut seen = 0usize; let mut raw = 0usize; for l in setup.files.iter().flatten() { if seen == out.total_lines as usize { break; } raw += 1; if l.as_str() != BAD_LINE { seen += 1; } } raw };
        let want = run(setup, &truncate(&setup.files, m), Arc::new(AtomicBool::new(true)), None, "tr");
        if want.result.is_err() { continue; }
        let total: usize = setup.files.iter().map(|f| f.len()).sum();
        if m > 0 && m < total { obs.sub(crate::rng::mix(&[setup.tag, 4, round])); }
        obs.hit(&format!("thread-stopped-at:{}", if m == 0 { "start" } else if m >= total { "end" } else { "inside" }));
        if let Err(e) = &out.result { vs.push(Violation::new("interrupt|thread|error-reported", e.show())); break; }
        // when the joined loader was interrupted the join index is partial: only the main-loop part is comparable
        if setup.joined.is_some() && m == 0 { continue; }
        if setup.joined.is_none() && out.printed != want.printed { vs.push(Violation::new("interrupt|thread|output-differs", format!("interrupted after {} lines: printed {} records, uninterrupted run over those lines prints {}", m, out.printed.len(), want.printed.len()))); break; }
    }
    if vs.is_empty() { Verdict::Held } else { Verdict::Violated(vs) }
}

/// SIGINT to the real CLI: stdout must be a line-prefix of the full run (select) and the exit status 0
fn check_cli(case: &J, obs: &mut Obs) -> Verdict {
    use std::process::{Command, Stdio};
    let Some(cli) = eng::cli_path() else { return Verdict::Inconclusive("no-cli".into()) };
    let n = case["lines"].as_u64().unwrap_or(1000) as usize;
    let delay = case["delay_us"].as_u64().unwrap_or(1000);
    let aggregate = case["aggregate"].as_bool().unwrap_or(false);
    let tag = case_hash(case);
    let def = eng::write_scratch(&format!("c19-cli-{}.def", tag), b"CREATE TABLE t ( line = 'n=([0-9]+) g=([0-9]+)' , line [ 1 ] => n INT , line [ 2 ] => g INT ) ;");
    let mut data = String::with_capacity(n * 14);
    for i in 0..n { data.push_str(&format!("n={} g={}\n", i, i % 7)); }
    let datap = eng::write_scratch(&format!("c19-cli-{}.log", tag), data.as_bytes());
    let sql = if aggregate { "SELECT g, COUNT(*) AS c, MAX(n) AS hi FROM t GROUP BY g" } else { "SELECT n FROM t" };
    let child = Command::new(&cli).args(["-d", def.to_str().unwrap(), datap.to_str().unwrap(), "--format", "json", "-c", sql])
        .stdin(Stdio::null()).stdout(Stdio::piped()).stderr(Stdio::piped()).env("TZ", "UTC").spawn();
    let child = match child { Ok(c) => c, Err(e) => return Verdict::Inconclusive(format!("spawn: {}", e)) };
    std::thread::sleep(std::time::Duration::from_micros(delay));
    let _ = Command::new("kill").args(["-INT", &child.id().to_string()]).status();
    let out = match child.wait_with_output() { Ok(o) => o, Err(e) => return Verdict::Inconclusive(format!("wait: {}", e)) };
    let _ = std::fs::remove_file(&def); let _ = std::fs::remove_file(&datap);
    obs.evals += 1;
    let stdout = String::from_utf8_lossy(&out.stdout).into_owned();
    let lines: Vec<&str> = stdout.lines().filter(|l| !l.is_empty()).collect();
    let mut vs = Vec::new();
    if out.status.code().is_none() && stdout.is_empty() { return Verdict::Inconclusive("sigint-before-handler-installed".into()); }
    if out.status.code() != Some(0) { vs.push(Violation::new("interrupt|cli|exit-status", format!("exit status {:?} after SIGINT, stderr {:?}", out.status, String::from_utf8_lossy(&out.stderr).chars().take(200).collect::<String>()))); }
    if stdout.contains("Execution error") { vs.push(Violation::new("interrupt|cli|error-reported", stdout.lines().find(|l| l.contains("Execution error")).unwrap_or("").to_owned())); }
    if !aggregate {
        for (i, l) in lines.iter().enumerate() { if *l != format!("{{\"n\":{}}}", i) { vs.push(Violation::new("interrupt|cli|not-a-prefix", format!("record {} is {:?}", i, l))); break; } }
        if !lines.is_empty() && lines.len() < n { obs.nontrivial(); }
        obs.hit(if lines.is_empty() { "cli:stopped-before-output" } else if lines.len() >= n { "cli:ran-to-end" } else { "cli:stopped-inside" });
    } else {
        // the table must be the aggregate of a prefix 0..m of the input, for some m
        let mut counts = vec![0u64; 7]; let mut his = vec![-1i64; 7];
        for l in &lines { if let Ok(j) = serde_json::from_str::<J>(l) { let g = j["g"].as_u64().unwrap_or(99) as usize; if g < 7 { counts[g] = j["c"].as_u64().unwrap_or(0); his[g] = j["hi"].as_i64().unwrap_or(-1); } } }
        let m: u64 = counts.iter().sum();
        let ok = (0..7).all(|g| { let expect_c = if m > g as u64 { (m - g as u64 + 6) / 7 } else { 0 }; counts[g] == expect_c && (expect_c == 0 || his[g] == (g as u64 + 7 * (expect_c - 1)) as i64) });
        if !ok { vs.push(Violation::new("interrupt|cli|aggregate-not-of-a-prefix", format!("counts {:?} maxima {:?} are not those of the first {} lines", counts, his, m))); }
        if m > 0 && (m as usize) < n { obs.nontrivial(); }
        obs.hit(if m == 0 { "cli:stopped-before-output" } else if m as usize >= n { "cli:ran-to-end" } else { "cli:stopped-inside" });
    }
    if vs.is_empty() { Verdict::Held } else { Verdict::Violated(vs) }
}


/// follow mode: the flag is cleared while the executor waits at end of file; more lines arrive afterwards. The executor may
/// fetch the next delivered line but must neither evaluate it (an evaluation error would be reported) nor go on reading.
fn check_follow(case: &J, obs: &mut Obs) -> Verdict {
    use sqlgrep::execution::execution_engine::ExecutionEngine;
    use sqlgrep::executor::{DisplayOptions, FollowFileExecutor};
    use sqlgrep::verif_hooks::{set_follow_eof, FollowAction};
    use std::io::Write;
    let tables = match eng::tables_from(case["tables"].as_str().unwrap_or("")) { Ok(t) => t, Err(e) => return Verdict::Inconclusive(format!("table: {}", e.show())) };
    let stmt = match eng::parse(case["stmt"].as_str().unwrap_or("")) { Ok(s) => s, Err(e) => return Verdict::Inconclusive(format!("stmt: {}", e.show())) };
    let strs = |k: &str| -> Vec<String> { case[k].as_array().map(|a| a.iter().filter_map(|x| x.as_str().map(|s| s.to_owned())).collect()).unwrap_or_default() };
    let (pre, post) = (strs("pre"), strs("post"));
    let path = eng::write_scratch(&format!("c19-follow-{}.log", case_hash(case)), &file_bytes(&pre));
    let running = Arc::new(AtomicBool::new(true));
    let eofs_after_clear = Rc::new(RefCell::new(0usize));
    let cleared = Rc::new(RefCell::new(false));
    let (r2, e2, c2, p2, post2) = (running.clone(), eofs_after_clear.clone(), cleared.clone(), path.clone(), file_bytes(&post));
    set_follow_eof(Some(Box::new(move || {
        if !*c2.borrow() {
            *c2.borrow_mut() = true;
            r2.store(false, Ordering::SeqCst);
            if let Ok(mut f) = std::fs::OpenOptions::new().append(true).open(&p2) { let _ = f.write_all(&post2); }
            FollowAction::Continue
        } else { *e2.borrow_mut() += 1; FollowAction::Stop }
    })));
    let result = guard(|| -> Result<(), String> {
        let file = std::fs::File::open(&path).map_err(|e| e.to_string())?;
        let engine = ExecutionEngine::new(&tables, &stmt);
        let mut ex = FollowFileExecutor::new(running.clone(), file, true, DisplayOptions::default(), engine).map_err(|e| e.to_string())?;
        ex.execute().map_err(|e| e.to_string())
    });
    set_follow_eof(None);
    let _ = std::fs::remove_file(&path);
    obs.evals += 1;
    obs.hit("follow-interrupt");
    if !post.is_empty() { obs.sub(crate::rng::mix(&[case_hash(case), 5])); }
    let mut vs = Vec::new();
    match &result {
        Err(p) => vs.push(Violation::new(format!("interrupt|follow|{}", p.sig()), p.describe())),
        Ok(Err(e)) => vs.push(Violation::new("interrupt|follow|error-reported", format!("flag cleared at end of file after {} lines, {} more lines arrived: execute() returned {:?}", pre.len(), post.len(), e))),
        Ok(Ok(())) => {}
    }
    if !*cleared.borrow() { return Verdict::Inconclusive("end-of-file-never-reached".into()); }
    if *eofs_after_clear.borrow() > 0 && !post.is_empty() { vs.push(Violation::new("interrupt|follow|kept-reading-after-clear", format!("flag cleared at end of file after {} lines; all {} lines that arrived afterwards were consumed and the reader waited at end of file again", pre.len(), post.len()))); }
    if vs.is_empty() { Verdict::Held } else { Verdict::Violated(vs) }
}


/// the real FollowFileExecutor in a child process works off a backlog of complete lines; an interrupter thread writes a marker
/// into the same stdout and clears the flag. Records after the marker = lines consumed after the interrupt: a handful at most
/// (the records already in flight), never the rest of the backlog.
fn check_follow_backlog(case: &J, obs: &mut Obs) -> Verdict {
    use std::process::{Command, Stdio};
    let total = case["backlog_lines"].as_u64().unwrap_or(0) as usize;
    let path = eng::write_scratch(&format!("c19-backlog-{}.json", case_hash(case)), serde_json::to_string(case).unwrap().as_bytes());
    let exe = std::env::current_exe().expect("current_exe");
    let out = Command::new(&exe).arg("follow-exec").arg(&path).stdin(Stdio::null()).stdout(Stdio::piped()).stderr(Stdio::null()).env("TZ", "UTC").output();
    let _ = std::fs::remove_file(&path);
    let Ok(out) = out else { return Verdict::Inconclusive("child-process-failed".into()) };
    let text = String::from_utf8_lossy(&out.stdout);
    let mut before = 0usize; let mut after = 0usize; let mut seen_marker = false; let mut status = None;
    for l in text.lines() {
        if l == "#interrupt" { seen_marker = true; }
        else if let Some(s) = l.strip_prefix("#status ") { status = Some(s.to_owned()); }
        else if l.starts_with('{') { if seen_marker { after += 1; } else { before += 1; } }
    }
    obs.evals += 1;
    let Some(status) = status else { return Verdict::Violated(vec![Violation::new("interrupt|follow-backlog|child-died", format!("no status line; exit {:?}", out.status.code()))]) };
    if !seen_marker || before >= total { obs.hit("follow-backlog:finished-before-the-interrupt"); return Verdict::Inconclusive("backlog-finished-before-the-interrupt".into()); }
    obs.hit("follow-backlog:interrupted-inside");
    obs.sub(crate::rng::mix(&[case_hash(case), 6]));
    let mut vs = Vec::new();
    if status != "ok" { vs.push(Violation::new("interrupt|follow-backlog|error-reported", status)); }
    // the flag is cleared before the marker is written, so every record after the marker was printed after the interrupt: the
    // line in flight, not thousands
    if after > 2000 { vs.push(Violation::new("interrupt|follow-backlog|kept-consuming-the-backlog", format!("{} of {} lines were printed before the interrupt and {} after it", before, total, after))); }
    if vs.is_empty() { Verdict::Held } else { Verdict::Violated(vs) }
}
