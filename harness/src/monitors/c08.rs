//! C08 — DISTINCT emits each distinct output tuple once, at its first occurrence.

use serde_json::{json, Value as J};

use crate::ast::*;
use crate::eng::{self, RowsOut};
use crate::gen::*;
use crate::monitors::relcommon::*;
use crate::rng::Rng;
use crate::runner::*;
use crate::val::*;

pub struct C08;

/// first occurrences under the reference tuple equality (NULL = NULL, numbers by value)
fn first_occurrences(rows: &[Vec<RV>]) -> Vec<Vec<RV>> {
    let mut out: Vec<Vec<RV>> = Vec::new();
    for r in rows { if !out.iter().any(|o| tuple_eq(o, r)) { out.push(r.clone()); } }
    out
}

fn nan_in(v: &RV) -> bool { match v { RV::Real(x) => x.is_nan(), RV::Arr(_, xs) => xs.iter().any(nan_in), _ => false } }
fn has_nan(rows: &[Vec<RV>]) -> bool { rows.iter().any(|r| r.iter().any(nan_in)) }

impl Monitor for C08 {
    fn id(&self) -> &'static str { "C08" }
    fn rule(&self) -> &'static str {
        "case = plain / join SELECT DISTINCT (1-4 projections over few distinct values, tuples differing in one column / only by NULL / by -0.0 vs 0.0 / recurring after long gaps; a large-set family first fills the set with 150-400 distinct tuples) or aggregate DISTINCT (with and without HAVING, key columns often left out of the select list so that result rows repeat). Oracle: the DISTINCT output equals the output of the same statement without DISTINCT filtered to first occurrences under the reference tuple equality - for the batch result and for every incremental refresh. Non-trivial = the non-distinct output contains a duplicate tuple; distinct by case hash"
    }
    fn assumptions(&self) -> Vec<String> { vec!["reference tuple equality: NULL = NULL, numbers by value, -0.0 = 0.0; cases whose output contains NaN are skipped".into()] }
    fn sizes(&self, tier: Tier) -> Sizes { match tier { Tier::Quick => Sizes { cases: 20_000, min_nontrivial: 2_000 }, Tier::Thorough => Sizes { cases: 600_000, min_nontrivial: 60_000 } } }

    fn exhaustive_note(&self) -> Option<String> { Some("one huge-set case per size class (2^10 .. 2^17, thorough .. 2^20) in every run (kind=HugeSet)".into()) }

    fn enumerate(&self, tier: Tier, emit: &mut dyn FnMut(J)) {
        let sizes: &[usize] = if tier == Tier::Thorough { &[1 << 10, 1 << 12, 10_000, 1 << 14, 1 << 15, 1 << 16, 100_000, 1 << 17, 1 << 18, 1 << 20, 1_000_000] } else { &[1 << 10, 1 << 12, 10_000, 1 << 14, 1 << 16, 100_000, 1 << 17] };
        for (i, base_n) in sizes.iter().enumerate() { let n = base_n + 1 + base_n / 32; emit(json!({"shape": "HugeSet", "n": n, "recur": [0, 1, 2, n / 2, n - 1, 7], "text_column": i % 2 == 0})); }
    }

    fn generate(&self, rng: &mut Rng, tier: Tier) -> J {
        // huge set: n distinct rows (n around a power of two or ten up to 2^17, thorough up to 2^20), then rows seen long ago recur.
        // Only the parameters are stored; the lines are materialised by the check.
        if rng.chance(1, if tier == Tier::Thorough { 4000 } else { 1200 }) {
            let sizes: &[usize] = if tier == Tier::Thorough { &[1 << 10, 1 << 12, 10_000, 1 << 14, 1 << 15, 1 << 16, 100_000, 1 << 17, 1 << 18, 1 << 20, 1_000_000] } else { &[1 << 10, 1 << 12, 10_000, 1 << 14, 1 << 16, 100_000, 1 << 17] };
            let base_n = *rng.pick(sizes);
            let n = base_n + 1 + rng.below(base_n / 16 + 2);
            let recur: Vec<usize> = (0..6).map(|i| if i < 3 { i } else { rng.below(n) }).collect();
            return json!({"shape": "HugeSet", "n": n, "recur": recur, "text_column": rng.chance(1, 2)});
        }
        if rng.chance(1, 8) {
            // large set: many distinct REAL values, then -0.0 / 0.0 and repeats
            let n = 150 + rng.below(250);
            let mut lines: Vec<String> = (0..n).map(|i| format!("{{\"r\":{}.25,\"g\":{}}}", 1000 + i, i % 7)).collect();
            for v in ["0.0", "-0.0", "0.0", "1000.25", "-0.0", "5.5", "5.5"] { lines.push(format!("{{\"r\":{},\"g\":1}}", v)); }
            let stmt = if rng.chance(1, 2) { "SELECT DISTINCT r FROM t" } else { "SELECT DISTINCT r , ( g * 0 ) FROM t" };
            return json!({"tables": "CREATE TABLE t ( { . r } => r REAL , { . g } => g INT ) ;", "stmt": stmt, "lines": lines, "joined": null, "shape": "LargeSet"});
        }
        let (mut case, t, mut sel, shape) = gen_base(rng, &BaseCfg { shapes: &[Shape::Plain, Shape::Plain, Shape::Join, Shape::Aggregate, Shape::Aggregate, Shape::JoinAggregate], allow_limit: false, allow_having: true, agg_distinct: false, order_insensitive_only: false, exact_data: true, min_lines: 3, max_lines: 40, not_null_column: false, big_rate: 300, big_lines: 1500 });
        match shape {
            Shape::Aggregate | Shape::JoinAggregate => {
                // result rows repeat when keys are not shown
                if rng.chance(2, 3) { let keys = sel.group_by.clone().unwrap_or_default(); sel.projs.retain(|(e, _)| !keys.contains(e)); if sel.projs.is_empty() { sel.projs.push((E::Agg("count".into(), false, vec![E::Star]), None)); } }
                if rng.chance(1, 2) { sel.projs.truncate(2); }
                // one key shown twice while another key of the grouping is not shown at all (as many key columns as keys, yet rows repeat)
                if let Some(keys) = sel.group_by.clone() { if keys.len() >= 2 && rng.chance(1, 3) { sel.projs.retain(|(e, _)| !keys.contains(e)); sel.projs.insert(0, (keys[0].clone(), Some("again".into()))); sel.projs.insert(0, (keys[0].clone(), None)); } }
            }
            _ => {
                // few-valued projections so that tuples repeat
                let n = 1 + rng.below(3);
                sel.projs.clear();
                for _ in 0..n {
                    let e = match rng.below(8) { 0 => col("k"), 1 => col("g"), 2 => bin("*", col("g"), int(0)), 3 => E::Is(false, b(col("i")), b(E::Null)), 4 => { let c = &t.schema.cols[rng.below(t.schema.cols.len())]; col(&c.0) } 5 => E::Case(vec![(bin(">=", col("g"), int(1)), real(0.0))], b(E::Neg(b(E::Real(0.0))))), 6 => E::Case(vec![(bin(">=", col("i"), int(3)), real(1.5))], b(E::Null)), _ => E::Case(vec![(E::Is(false, b(col("g")), b(E::Null)), E::Neg(b(E::Real(0.0))))], b(real(0.0))) };
                    sel.projs.push((e, None));
                }
            }
        }
        sel.distinct = true;
        case["stmt"] = json!(sel.text(Paren::Full));
        case
    }

    fn check(&self, case: &J, obs: &mut Obs) -> Verdict {
        if case["shape"] == "HugeSet" { return check_huge(case, obs); }
        let base = match Base::from_case(case) { Ok(b) => b, Err(e) => return Verdict::Inconclusive(e) };
        let shape = case["shape"].as_str().unwrap_or("?").to_owned();
        let plain_sql = base.sql.replacen("SELECT DISTINCT ", "SELECT ", 1);
        if plain_sql == base.sql { return Verdict::Inconclusive("not-distinct".into()); }
        let pd = match base.prepare("d") { Ok(p) => p, Err(e) => return Verdict::Inconclusive(format!("stmt: {}", e.show().chars().take(40).collect::<String>())) };
        let pn = match base.prepare_with(&plain_sql, base.joined.as_deref(), "n") { Ok(p) => p, Err(_) => return Verdict::Inconclusive("stmt".into()) };
        let having = if base.sql.contains(" HAVING ") { "|having" } else { "" };
        obs.hit(&format!("shape:{}{}", shape, having));
        let mut vs: Vec<Violation> = Vec::new();
        let judge = |d: &RowsOut, n: &RowsOut, what: &str, vs: &mut Vec<Violation>, obs: &mut Obs| {
            if has_nan(&n.rows) { return; }
            let want = first_occurrences(&n.rows);
            if want.len() < n.rows.len() { obs.nontrivial(); }
            let same = d.rows.len() == want.len() && d.rows.iter().zip(want.iter()).all(|(a, b2)| a.len() == b2.len() && a.iter().zip(b2.iter()).all(|(x, y)| x.same(y, 0.0) || eq_ref(x, y) == Some(true)));
            if !same {
                let kind = if d.rows.len() > want.len() { "duplicate-kept" } else if d.rows.len() < want.len() { "distinct-row-dropped" } else { "rows-differ" };
                let sig = format!("distinct|{}{}|{}|{}", shape, having, what, kind);
                if !vs.iter().any(|v| v.sig == sig) { vs.push(Violation::new(sig, format!("{:?}: DISTINCT gives {} ; the statement without DISTINCT gives {} rows with {} distinct tuples: {}", base.sql, show_rows(d, 4), n.rows.len(), want.len(), want.iter().take(4).map(|r| show_row(r)).collect::<Vec<_>>().join(" ")))); }
            }
        };
        match (base.batch(&pd, &base.lines), base.batch(&pn, &base.lines)) {
            (Err(eng::EngErr::Panic(p)), _) => vs.push(Violation::new(format!("distinct|{}|panic:{}", shape, p.class()), p.describe())),
            (Ok(d), Ok(n)) => judge(&d, &n, "batch", &mut vs, obs),
            (Err(_), Err(_)) | (_, Err(eng::EngErr::Panic(_))) => return Verdict::Inconclusive("lower-layer-error".into()),
            (d, n) => vs.push(Violation::new(format!("distinct|{}|error-differs", shape), format!("{:?}: with DISTINCT {:?}, without {:?}", base.sql, d.err().map(|e| e.show()), n.err().map(|e| e.show())))),
        }
        // every refresh of the incremental path (aggregates print a whole table per line)
        if shape == "Aggregate" && vs.is_empty() && base.lines.len() <= 25 {
            let (od, ed) = eng::exec_lines(&base.tables, &pd.stmt, &base.lines, true, true);
            let (on, en) = eng::exec_lines(&base.tables, &pn.stmt, &base.lines, true, true);
            if ed.is_none() && en.is_none() {
                for (i, (d, n)) in od.iter().zip(on.iter()).enumerate() {
                    obs.evals += 1;
                    match (&d.out, &n.out) { (Some(dr), Some(nr)) => judge(dr, nr, if i == 0 { "first-refresh" } else { "later-refresh" }, &mut vs, obs), (None, None) => {}, _ => { vs.push(Violation::new(format!("distinct|{}|refresh-presence", shape), format!("{:?} line {}", base.sql, i))); } }
                    if !vs.is_empty() { break; }
                }
            }
        }
        if vs.is_empty() { Verdict::Held } else { Verdict::Violated(vs) }
    }
}


/// n distinct rows followed by rows seen long ago: DISTINCT must print exactly the n first occurrences, in order
fn check_huge(case: &J, obs: &mut Obs) -> Verdict {
    let n = case["n"].as_u64().unwrap_or(0) as usize;
    let recur: Vec<usize> = case["recur"].as_array().map(|a| a.iter().filter_map(|x| x.as_u64().map(|v| v as usize)).collect()).unwrap_or_default();
    let text = case["text_column"].as_bool().unwrap_or(false);
    let line = |i: usize| if text { format!("{{\"i\":{},\"k\":\"v{}\"}}", i % 3, i) } else { format!("{{\"i\":{},\"k\":\"c\"}}", i) };
    let mut lines: Vec<String> = (0..n).map(line).collect();
    for r in &recur { lines.push(line(*r % n.max(1))); }
    let tables = match eng::tables_from("CREATE TABLE t ( { . i } => i INT , { . k } => k TEXT ) ;") { Ok(t) => t, Err(e) => return Verdict::Inconclusive(format!("table: {}", e.show())) };
    let stmt = match eng::parse("SELECT DISTINCT i , k FROM t") { Ok(s) => s, Err(e) => return Verdict::Inconclusive(format!("stmt: {}", e.show())) };
    obs.hit("shape:HugeSet");
    obs.hit(&format!("huge:2^{}", (n as f64).log2().floor() as u32));
    obs.nontrivial();
    match eng::exec_batch(&tables, &stmt, &lines) {
        Err(eng::EngErr::Panic(p)) => Verdict::Violated(vec![Violation::new(format!("distinct|HugeSet|panic:{}", p.class()), p.describe())]),
        Err(e) => Verdict::Violated(vec![Violation::new("distinct|HugeSet|error", e.show())]),
        Ok(out) => {
            let bad = out.rows.len() != n || out.rows.iter().enumerate().any(|(i, r)| { let want_i = if text { (i % 3) as i64 } else { i as i64 }; let want_k = if text { format!("v{}", i) } else { "c".to_owned() }; !(r.len() == 2 && matches!(&r[0], RV::Int(x) if *x == want_i) && matches!(&r[1], RV::Text(x) if *x == want_k)) });
            if !bad { return Verdict::Held; }
            let kind = if out.rows.len() > n { "duplicate-kept" } else if out.rows.len() < n { "distinct-row-dropped" } else { "rows-differ" };
            Verdict::Violated(vec![Violation::new(format!("distinct|HugeSet|batch|{}", kind), format!("{} distinct rows followed by {} rows seen before: DISTINCT printed {} rows", n, recur.len(), out.rows.len()))])
        }
    }
}
