//! C09 — execution is total: any data gives results or an error message, never a crash.
//! Crash monitor at the executor boundary: parse -> add_tables -> FileExecutor.execute -> print under catch_unwind,
//! in the profile with overflow checks (every integer wrap is a panic the monitor sees).

use std::process::{Command, Stdio};
use std::sync::atomic::AtomicBool;
use std::sync::Arc;

use serde_json::{json, Value as J};

use crate::ast::*;
use crate::eng;
use crate::gen::*;
use crate::monitors::c12::{materialise, remove_files, write_files};
use crate::rng::Rng;
use crate::runner::*;
use crate::val::Ty;

pub struct C09;

pub const ZONES: &[&str] = &["UTC", "Europe/Stockholm", "America/Sao_Paulo", "Australia/Lord_Howe", "Pacific/Apia", "America/St_Johns", "Asia/Kathmandu", "America/New_York", "America/Havana", "Asia/Beirut", "Africa/Cairo", "America/Santiago"];

/// a walk through one calendar year in one zone: the 1st and another day of every month at the times of day where
/// daylight-saving transitions sit (local times that are missing or exist twice there, also as intermediate results of
/// truncations: `date_trunc('month', <15th 01:30>)` passes through <1st 01:30>)
fn calendar_walk_lines(rng: &mut Rng, year: i64) -> Vec<String> {
    let mut lines = Vec::new();
    for month in 1..=12 {
        for day in [1, 1 + rng.below(28) as i64] {
            for (h, mi) in [(0, 0), (0, 30), (1, 30), (2, 30), (23, 30)] {
                lines.push(format!("{{\"k\":\"a\",\"i\":{},\"ts\":\"{:04}-{:02}-{:02} {:02}:{:02}:00\",\"iv\":\"{}:30:00\"}}", month, year, month, day, h, mi, rng.below(48)));
            }
        }
    }
    lines
}
const WALK_STATEMENTS: &[&str] = &[
    "SELECT date_trunc ( 'day' , ts ) , date_trunc ( 'month' , ts ) , date_trunc ( 'year' , ts ) , date_trunc ( 'hour' , ts ) FROM t",
    "SELECT ts + iv , ts - iv , ( ts + iv ) - ts , EXTRACT ( hour FROM ts + iv ) , EXTRACT ( epoch FROM ts ) FROM t",
    "SELECT ( ts :: text ) :: timestamp , ts :: text , greatest ( ts , ts + iv ) FROM t",
    "SELECT make_timestamp ( EXTRACT ( year FROM ts ) , i , 1 , EXTRACT ( hour FROM ts ) , EXTRACT ( minute FROM ts ) , 0 , 0 ) FROM t",
    "SELECT date_trunc ( 'month' , ts ) , MIN ( ts ) , MAX ( ts + iv ) , COUNT ( DISTINCT date_trunc ( 'day' , ts ) ) FROM t GROUP BY date_trunc ( 'month' , ts )",
];
/// local times inside DST gaps / overlaps of the zones above (and ordinary ones)
const GAP_TIMES: &[&str] = &["2021-03-28 02:30:00", "2021-10-31 02:30:00", "2018-11-04 00:30:00", "2018-02-17 23:30:00", "2021-10-03 02:15:00", "2021-04-04 01:45:00", "2011-12-30 12:00:00", "2021-03-14 02:30:00", "1986-01-01 00:07:00", "2021-06-01 12:00:00"];

fn hostile_real_table() -> &'static str { "CREATE TABLE t ( { . k } => k TEXT , { . r } => r REAL CONVERT , { . i } => i INT , { . ts } => ts TIMESTAMP CONVERT , { . iv } => iv INTERVAL CONVERT , { . ia } => ia INT [ ] ) ;" }

fn hostile_real_line(rng: &mut Rng) -> String {
    let r = *rng.pick(&["NaN", "inf", "-inf", "-0.0", "0.0", "1e308", "-1e308", "5e-324", "1.5", "nan", "+inf"]);
    let i = *rng.pick(&["9223372036854775807", "-9223372036854775808", "0", "-1", "3037000500", "4611686018427387904", "1", "4294967296", "-8589934592", "2147483648", "4294967297"]);
    let ts = *rng.pick(GAP_TIMES);
    let iv = *rng.pick(&["0:00:00", "2562047788015:12:55", "-2562047788015:12:55", "9223372036854775807:0:0", "0:0:-9223372036854775808", "1:02:03", "99999999999:59:59", "0:307445734561825861:0", "0:9223372036854775807:59", "1:153722867280912931:5", "0:-307445734561825861:0"]);
    let mut parts = vec![format!("\"k\":{}", json_str(*rng.pick(&["a", "b", ""])))];
    if rng.chance(4, 5) { parts.push(format!("\"r\":{}", json_str(r))); }
    if rng.chance(4, 5) { parts.push(format!("\"i\":{}", i)); }
    if rng.chance(3, 5) { parts.push(format!("\"ts\":{}", json_str(ts))); }
    if rng.chance(3, 5) { parts.push(format!("\"iv\":{}", json_str(iv))); }
    if rng.chance(2, 5) { parts.push(format!("\"ia\":[{},{}]", i, *rng.pick(&["null", "1", "-9223372036854775808"]))); }
    format!("{{{}}}", parts.join(","))
}

/// single expressions: a statement with several projections stops at the first that fails, so each also runs alone
const HOSTILE_EXPRESSIONS: &[&str] = &[
    "i + i", "i * i", "i - 1", "i + 1", "- i", "abs ( i )", "i / 0", "i / ( - 1 )", "i / -1", "pow ( i , 2 )", "pow ( 2 , i )", "pow ( i , i )", "i * -1", "( i - 1 ) / -1", "least ( i , -1 ) / -1",
    "ia [ i ]", "ia [ 0 ]", "ia [ -9223372036854775807 - 1 ]", "ia [ 9223372036854775807 ]", "array_length ( ia ) / 0",
    "r + r", "r * r", "r / 0.0", "sqrt ( r )", "pow ( r , r )", "- r", "abs ( r )", "r :: text", "least ( r , 1.0 )", "array_unique ( array [ r , r , 0.0 , sqrt ( r ) ] )", "r = sqrt ( r )", "r IN ( r , sqrt ( r ) )",
    "ts + iv", "ts - iv", "iv + iv", "iv - iv", "- iv", "abs ( iv )", "iv :: int", "iv :: real", "ts - ts", "( ts :: text ) :: timestamp", "greatest ( ts , ts )",
    "date_trunc ( 'day' , ts )", "date_trunc ( 'hour' , ts )", "date_trunc ( 'month' , ts )", "date_trunc ( 'year' , ts )", "date_trunc ( 'second' , ts )", "EXTRACT ( epoch FROM ts )", "EXTRACT ( hour FROM ts )",
    "make_timestamp ( i , i , i , i , i , i , i )", "make_timestamp ( 2021 , 3 , 28 , 2 , 30 , 0 , 0 )", "make_timestamp ( 2018 , 11 , 4 , 0 , 30 , 0 , 0 )", "make_timestamp ( 262142 , 12 , 31 , 23 , 59 , 59 , 999 )",
    "CASE WHEN r > 0.0 THEN i / 0 ELSE i END", "length ( k ) / length ( k )", "upper ( k ) :: int", "k :: real", "k :: timestamp", "k :: interval",
];
const HOSTILE_AGGREGATES: &[&str] = &[
    "SUM ( i )", "AVG ( i )", "STDDEV ( i )", "VARIANCE ( i )", "SUM ( i ) * 2", "SUM ( i ) + 9223372036854775807", "MIN ( i ) - 1", "MAX ( i ) + 1", "- MIN ( i )", "MIN ( i ) / -1", "COUNT ( * ) / 0",
    "SUM ( r )", "AVG ( r )", "STDDEV ( r )", "VARIANCE ( r )", "MIN ( r )", "MAX ( r )", "PERCENTILE ( r , 0.5 )", "PERCENTILE ( r , 1.0 )", "PERCENTILE ( r , 0.0 )", "COUNT ( DISTINCT r )", "ARRAY_AGG ( r )",
    "SUM ( iv )", "AVG ( iv )", "MIN ( iv )", "MAX ( iv )", "STDDEV ( iv )", "VARIANCE ( iv )", "MIN ( ts )", "MAX ( ts )", "PERCENTILE ( ts , 0.5 )", "COUNT ( DISTINCT ts )", "STRING_AGG ( k , ',' )", "BOOL_AND ( i > 0 )",
];

const HOSTILE_STATEMENTS: &[&str] = &[
    "SELECT r , COUNT ( * ) FROM t GROUP BY r", "SELECT DISTINCT r FROM t", "SELECT MIN ( r ) , MAX ( r ) , SUM ( r ) , AVG ( r ) , STDDEV ( r ) , VARIANCE ( r ) FROM t GROUP BY k",
    "SELECT PERCENTILE ( r , 0.5 ) , PERCENTILE ( r , 1.0 ) , PERCENTILE ( r , 0.0 ) FROM t", "SELECT COUNT ( DISTINCT r ) FROM t", "SELECT SUM ( i ) FROM t", "SELECT AVG ( i ) , STDDEV ( i ) , VARIANCE ( i ) FROM t GROUP BY k",
    "SELECT k , SUM ( i ) * 2 , SUM ( i ) + 9223372036854775807 FROM t GROUP BY k", "SELECT i + i , i * i , i - 1 , - i , abs ( i ) , i / 0 , i / -1 , pow ( i , 2 ) , pow ( 2 , i ) FROM t",
    "SELECT ia [ i ] , ia [ 0 ] , ia [ -9223372036854775807 - 1 ] , array_length ( ia ) FROM t", "SELECT k FROM t GROUP BY k HAVING SUM ( i ) > 0", "SELECT k , COUNT ( r ) FROM t GROUP BY k HAVING PERCENTILE ( r , 0.9 ) > 1.0 AND BOOL_AND ( i > 0 )",
    "SELECT ts , ts + iv , ts - iv , iv + iv , iv - iv , - iv , abs ( iv ) , iv :: int , iv :: real FROM t", "SELECT SUM ( iv ) , AVG ( iv ) , MIN ( iv ) , MAX ( iv ) , STDDEV ( iv ) FROM t",
    "SELECT date_trunc ( 'day' , ts ) , date_trunc ( 'hour' , ts ) , date_trunc ( 'month' , ts ) , date_trunc ( 'year' , ts ) , EXTRACT ( epoch FROM ts ) , EXTRACT ( hour FROM ts ) FROM t",
    "SELECT MIN ( ts ) , MAX ( ts ) FROM t GROUP BY k", "SELECT ts - ts , greatest ( ts , ts ) , ts :: text , ( ts :: text ) :: timestamp FROM t", "SELECT * FROM t WHERE ts > '2021-03-28 02:30:00'",
    "SELECT make_timestamp ( i , i , i , i , i , i , i ) , make_timestamp ( 2021 , 3 , 28 , 2 , 30 , 0 , 0 ) , make_timestamp ( 2018 , 11 , 4 , 0 , 30 , 0 , 0 ) FROM t",
    "SELECT r + r , r * r , r / 0.0 , sqrt ( r ) , pow ( r , r ) , - r , abs ( r ) , least ( r , 1.0 ) , r :: text FROM t", "SELECT array_agg ( r ) , string_agg ( k , ',' ) , array_agg ( i ) FROM t GROUP BY r",
    "SELECT array_unique ( array [ r , r , 0.0 ] ) , array [ r ] = array [ r ] FROM t", "SELECT k , r FROM t WHERE r IN ( r , 1.0 ) OR r NOT IN ( 0.0 ) OR r = r",
    "SELECT * FROM t INNER JOIN t :: '@SELF@' ON t . r = t . r", "SELECT * FROM t OUTER JOIN t :: '@SELF@' ON t . i = t . i", "SELECT CASE WHEN r > 0.0 THEN i / 0 ELSE i END FROM t",
];

impl Monitor for C09 {
    fn id(&self) -> &'static str { "C09" }
    fn rule(&self) -> &'static str {
        "kinds: std (standard tables, hostile cell pools: i64 extremes, 1e308, subnormals; generated SELECT / aggregate statements with hostile literal pools: zero divisors, overflow operands, huge subscripts, inf/NaN casts, huge intervals, out-of-range make_timestamp parts), extract (C01's table / line generator: 64-bit extremes, out-of-range date parts, 7-digit fractions), json (C02's documents incl. non-documents), bytes (arbitrary bytes incl. invalid UTF-8), hostile (NaN / inf / -0.0 / i64 extremes / DST-gap local times / huge intervals through a fixed corpus of aggregate, DISTINCT, join, date_trunc, HAVING statements and the matrix of every arithmetic operator / two-argument function over every pair of operand types and 32-/64-bit boundary literals), each printed as text / json / csv; thorough adds one subprocess per time zone (zones with DST gaps). Oracle: FileExecutor returns Ok or Err - a panic (overflow checks on), abort, signal or hang is a violation. Non-trivial = the statement executed at least one admitted line; distinct by case hash"
    }
    fn assumptions(&self) -> Vec<String> { vec!["silent integer wrap-around is observed as an overflow panic of the chk profile; `as` casts are covered by the value oracles of C01/C03".into(), "hangs are decided by the driver's two-stage watchdog".into()] }
    fn sizes(&self, tier: Tier) -> Sizes { match tier { Tier::Quick => Sizes { cases: 24_000, min_nontrivial: 8_000 }, Tier::Thorough => Sizes { cases: 1_500_000, min_nontrivial: 400_000 } } }

    fn generate(&self, rng: &mut Rng, tier: Tier) -> J {
        let format = *rng.pick(&["text", "json", "csv"]);
        if (tier == Tier::Thorough && rng.chance(1, 120)) || (tier == Tier::Quick && rng.chance(1, 100)) {
            // (one walk in four in a year whose 1 November / 1 March / 1 April is a Sunday: the day daylight saving changes in several
            // zones is then the first of the month, where a truncation passes through)
            let year = if rng.chance(1, 4) { *rng.pick(&[2020i64, 2026, 2015, 2009, 1998, 2031, 2036, 2018, 2029]) } else { rng.range(1990, 2037) };
            let lines = calendar_walk_lines(rng, year);
            let inner = json!({"kind": "hostile", "tables": hostile_real_table(), "stmt": *rng.pick(WALK_STATEMENTS), "files": [[lines.join("\n"), "\n"]], "format": format});
            return json!({"kind": "tz", "zone": *rng.pick(ZONES), "inner": inner});
        }
        if tier == Tier::Thorough && rng.chance(1, 60) {
            let lines: Vec<String> = (0..6).map(|_| hostile_real_line(rng)).collect();
            let inner = json!({"kind": "hostile", "tables": hostile_real_table(), "stmt": *rng.pick(HOSTILE_STATEMENTS), "files": [[lines.join("\n"), "\n"]], "format": format});
            return json!({"kind": "tz", "zone": *rng.pick(ZONES), "inner": inner});
        }
        match rng.below(10) {
            0..=3 => {
                let js = rng.chance(2, 3); let allc = rng.chance(1, 2);
                let t = std_table(rng, "t", js, allc);
                let dc = DataCfg::random(rng, t.schema.cols.len(), true);
                let n = rng.below(12);
                let lines = std_lines(rng, &t, n, &dc);
                let ecfg = ExprCfg { hostile: true, ill_typed: 30, max_depth: 3, ..Default::default() };
                let sel = if rng.chance(1, 2) { gen_select(rng, &t.schema, &StmtCfg { expr: ecfg, allow_limit: true, ..Default::default() }) } else { gen_aggregate(rng, &t.schema, &AggCfg { expr: ecfg, allow_distinct: true, allow_limit: true, ..Default::default() }) };
                json!({"kind": "std", "tables": t.spec.text(), "stmt": sel.text(Paren::Full), "files": [[lines.join("\n"), "\n"]], "format": format})
            }
            4 | 5 => {
                let (spec, pats) = crate::monitors::c01::gen_table(rng);
                let lines: Vec<String> = (0..8).map(|_| crate::monitors::c01::gen_line(rng, &pats)).collect();
                let stmt = match rng.below(4) { 0 => "SELECT * FROM t".to_string(), 1 => format!("SELECT {} , COUNT ( * ) FROM t GROUP BY {}", spec.cols[0].name, spec.cols[0].name), 2 => format!("SELECT MIN ( {c} ) , MAX ( {c} ) , COUNT ( DISTINCT {c} ) FROM t", c = spec.cols[rng.below(spec.cols.len())].name), _ => format!("SELECT DISTINCT {} FROM t", spec.cols[rng.below(spec.cols.len())].name) };
                json!({"kind": "extract", "tables": spec.text(), "stmt": stmt, "files": [[lines.join("\n"), "\n"]], "format": format})
            }
            6 => {
                let mut lines = Vec::new();
                let mut first: Option<crate::refx::JV> = None;
                for _ in 0..5 { let d = crate::monitors::c02::gen_object(rng, 3); let mut s = String::new(); crate::monitors::c02::write_json(rng, &d, &mut s); if rng.chance(1, 6) { let c = rng.below(s.len().max(1)); let mut c2 = c; while !s.is_char_boundary(c2) { c2 -= 1; } s.truncate(c2); } lines.push(s); if first.is_none() { first = Some(d); } }
                let doc = first.unwrap();
                let mut spec = TableSpec { name: "t".into(), patterns: vec![], cols: vec![] };
                for ci in 0..(1 + rng.below(4)) {
                    let ty = match rng.below(6) { 0 => Ty::Int, 1 => Ty::Real, 2 => Ty::Text, 3 => Ty::Arr(Box::new(Ty::Int)), 4 => Ty::Ts, _ => Ty::Iv };
                    spec.cols.push(ColSpec { name: format!("c{}", ci), ty, src: Src::Json(crate::monitors::c02::gen_path(rng, &doc)), modifier: if rng.chance(1, 2) { Modifier::Convert } else { Modifier::None } });
                }
                json!({"kind": "json", "tables": spec.text(), "stmt": "SELECT * FROM t", "files": [[lines.join("\n"), "\n"]], "format": format})
            }
            7 => {
                let jsf = rng.below(2) == 0;
                let t = std_table(rng, "t", jsf, true);
                let n = rng.below(200);
                let hex: String = (0..n).map(|_| format!("{:02x}", match rng.below(6) { 0 => 0x0a, 1 => 0xff, 2 => 0xc3, 3 => b'{', 4 => b'=', _ => rng.below(256) as u8 })).collect();
                json!({"kind": "bytes", "tables": t.spec.text(), "stmt": *rng.pick(&["SELECT * FROM t", "SELECT k , COUNT ( * ) FROM t GROUP BY k", "SELECT input FROM t", "SELECT DISTINCT k FROM t LIMIT 2"]), "files": [[{"hex": hex}], ["k=a|g=1\n"]], "format": format})
            }
            _ => {
                // one case in eight: groups of dozens to hundreds of hostile values (sorting, selection and hashing code that takes another
                // path beyond some size must survive NaN, infinities and signed zeros there too)
                let big = rng.chance(1, 8);
                let nl = if big { *rng.pick(&[21usize, 22, 33, 64, 65, 129, 300]) } else { 1 + rng.below(8) };
                let lines: Vec<String> = (0..nl).map(|_| hostile_real_line(rng)).collect();
                let stmt = match if big && rng.chance(1, 2) { 99 } else { rng.below(6) } {
                    99 => (*rng.pick(&["SELECT k , PERCENTILE ( r , 0.5 ) , PERCENTILE ( r , 0.9 ) , MIN ( r ) , MAX ( r ) , COUNT ( DISTINCT r ) FROM t GROUP BY k", "SELECT PERCENTILE ( r , 0.5 ) , PERCENTILE ( i , 0.5 ) , PERCENTILE ( iv , 0.9 ) FROM t", "SELECT DISTINCT r , i FROM t", "SELECT r , COUNT ( * ) , array_agg ( r ) FROM t GROUP BY r"])).to_string(),
                    0 => rng.pick(HOSTILE_STATEMENTS).to_string(),
                    // every operator and two-argument function over every pair of operand types and extreme literals (most
                    // combinations are type errors today; whatever they are or become, they must be values or errors)
                    1 => {
                        const OPERANDS: &[&str] = &["i", "r", "iv", "ts", "k", "ia", "4294967296", "-4294967296", "8589934592", "2147483648", "0", "-1", "0.0", "1e308", "( -9223372036854775807 - 1 )", "9223372036854775807", "( '0:00:01' :: interval )", "NULL", "TRUE"];
                        let (a, b) = (*rng.pick(OPERANDS), *rng.pick(OPERANDS));
                        let e = match rng.below(8) { 0 => format!("{} + {}", a, b), 1 => format!("{} - {}", a, b), 2 => format!("{} * {}", a, b), 3 | 4 => format!("{} / {}", a, b), 5 => format!("pow ( {} , {} )", a, b), 6 => format!("least ( {} , {} )", a, b), _ => format!("{} < {}", a, b) };
                        if rng.chance(1, 4) { format!("SELECT k FROM t GROUP BY k HAVING ( {} ) IS NOT NULL", format!(" {} ", e).replace("iv", "SUM ( iv )").replace(" i ", " SUM ( i ) ").replace(" r ", " MAX ( r ) ").replace("ts", "MIN ( ts )").replace("ia", "ARRAY_AGG ( i )")) } else { format!("SELECT {} FROM t", e) }
                    }
                    2 => format!("SELECT {} FROM t", rng.pick(HOSTILE_EXPRESSIONS)),
                    3 => format!("SELECT k FROM t WHERE ( {} ) IS NOT NULL", rng.pick(HOSTILE_EXPRESSIONS)),
                    4 => format!("SELECT {} FROM t{}", rng.pick(HOSTILE_AGGREGATES), if rng.chance(1, 2) { " GROUP BY k" } else { "" }),
                    _ => format!("SELECT k FROM t GROUP BY k HAVING {} IS NOT NULL", rng.pick(HOSTILE_AGGREGATES)),
                };
                json!({"kind": "hostile", "tables": hostile_real_table(), "stmt": stmt, "files": [[lines.join("\n"), "\n"]], "format": format})
            }
        }
    }

    fn check(&self, case: &J, obs: &mut Obs) -> Verdict {
        let kind = case["kind"].as_str().unwrap_or("");
        obs.hit(&format!("kind:{}", kind));
        if kind == "tz" { return check_tz(case, obs); }
        let tag = case_hash(case);
        let format = case["format"].as_str().unwrap_or("text");
        obs.hit(&format!("format:{}", format));
        let tables = match eng::tables_from(case["tables"].as_str().unwrap_or("")) { Ok(t) => t, Err(eng::EngErr::Panic(p)) => return Verdict::Violated(vec![Violation::new(p.sig(), format!("definition: {}", p.describe()))]), Err(_) => return Verdict::Inconclusive("definition-rejected".into()) };
        let files: Vec<Vec<u8>> = case["files"].as_array().map(|a| a.iter().map(materialise).collect()).unwrap_or_default();
        let paths = write_files(tag, "c09", &files);
        let sql = case["stmt"].as_str().unwrap_or("").replace("@SELF@", &paths.first().map(|p| p.display().to_string()).unwrap_or_default());
        let stmt = match eng::parse(&sql) { Ok(s) => s, Err(eng::EngErr::Panic(p)) => { remove_files(&paths); return Verdict::Violated(vec![Violation::new(p.sig(), format!("statement: {}", p.describe()))]); } Err(_) => { remove_files(&paths); return Verdict::Inconclusive("statement-rejected".into()); } };
        let out = eng::run_executor(&tables, &stmt, &paths, format, true, Arc::new(AtomicBool::new(true)), None);
        remove_files(&paths);
        if out.total_lines > 0 { obs.nontrivial(); }
        match out.result {
            Ok(()) => { obs.hit("outcome:output"); Verdict::Held }
            Err(eng::EngErr::Err(_)) => { obs.hit("outcome:error-reported"); Verdict::Held }
            Err(eng::EngErr::Panic(p)) => Verdict::Violated(vec![Violation::new(p.sig(), format!("{:?} ({} format): {}", sql, format, p.describe()))]),
        }
    }
}

/// the inner case in a fresh process with TZ set (chrono reads the zone from the environment)
fn check_tz(case: &J, obs: &mut Obs) -> Verdict {
    let zone = case["zone"].as_str().unwrap_or("UTC");
    obs.hit(&format!("zone:{}", zone));
    let doc = json!({"property": "C09", "case": case["inner"]});
    let path = eng::write_scratch(&format!("c09-tz-{}.json", case_hash(case)), serde_json::to_string(&doc).unwrap().as_bytes());
    let exe = match std::env::current_exe() { Ok(e) => e, Err(_) => return Verdict::Inconclusive("no-exe".into()) };
    let out = Command::new(exe).arg("replay").arg(&path).env("TZ", zone).stdin(Stdio::null()).stdout(Stdio::piped()).stderr(Stdio::null()).output();
    let _ = std::fs::remove_file(&path);
    let Ok(out) = out else { return Verdict::Inconclusive("spawn-failed".into()) };
    if let Some(sig) = std::os::unix::process::ExitStatusExt::signal(&out.status) { return Verdict::Violated(vec![Violation::new(format!("abort|signal{}|tz", sig), format!("TZ={}: child died by signal {}", zone, sig))]); }
    let Ok(v) = serde_json::from_slice::<J>(&out.stdout) else { return Verdict::Inconclusive("child-output".into()) };
    match v["verdict"].as_str() {
        Some("held") => { obs.nontrivial(); Verdict::Held }
        Some("violated") => Verdict::Violated(v["violations"].as_array().map(|a| a.iter().map(|x| Violation::new(x["sig"].as_str().unwrap_or("?").to_owned(), format!("TZ={}: {}", zone, x["detail"].as_str().unwrap_or("")))).collect()).unwrap_or_default()),
        _ => Verdict::Inconclusive("child-inconclusive".into()),
    }
}
