//! C16 — Value equality, ordering and hashing agree and form a total order.
//! (a) law checker on `sqlgrep::model::Value` directly, exhaustive over a pool (pairs and triples);
//! (b) consumer level: GROUP BY / DISTINCT / COUNT(DISTINCT) / array_unique / MIN / MAX / join through the engine
//!     must partition REAL / INT / TEXT values exactly as the reference equality does.

use std::cmp::Ordering;
use std::collections::hash_map::DefaultHasher;
use std::hash::{Hash, Hasher};

use fnv::FnvHasher;
use serde_json::{json, Value as J};
use sqlgrep::model::{create_timestamp, Float, Value, ValueType};

use crate::eng;
use crate::rng::Rng;
use crate::runner::*;
use crate::val::{cmp_int_real, cmp_ref, eq_ref, RV};

pub struct C16;

fn real_spec(x: f64) -> J { json!(["real", format!("{:#018x}", x.to_bits())]) }

pub fn mk(spec: &J) -> Option<Value> {
    let a = spec.as_array()?;
    Some(match a.first()?.as_str()? {
        "null" => Value::Null,
        "int" => Value::Int(a.get(1)?.as_str()?.parse().ok()?),
        "real" => Value::Float(Float(f64::from_bits(u64::from_str_radix(a.get(1)?.as_str()?.trim_start_matches("0x"), 16).ok()?))),
        "bool" => Value::Bool(a.get(1)?.as_bool()?),
        "text" => Value::String(a.get(1)?.as_str()?.to_owned()),
        "arr" => {
            let t = crate::ast::ty_from_sql(a.get(1)?.as_str()?)?.to_engine();
            Value::Array(t, a.get(2)?.as_array()?.iter().map(mk).collect::<Option<Vec<_>>>()?)
        }
        "ts" => {
            let p: Vec<i64> = a.get(1)?.as_array()?.iter().filter_map(|x| x.as_i64()).collect();
            if p.len() != 7 { return None; }
            Value::Timestamp(create_timestamp(p[0] as i32, p[1] as u32, p[2] as u32, p[3] as u32, p[4] as u32, p[5] as u32, p[6] as u32)?)
        }
        "iv" => ValueType::Interval.parse(a.get(1)?.as_str()?)?,
        // an interval given in microseconds (what a difference of two timestamps yields; the text form has whole seconds only)
        "ivus" => Value::Interval(chrono::Duration::microseconds(a.get(1)?.as_i64()?)),
        _ => return None,
    })
}

fn class(v: &Value) -> String {
    match v {
        Value::Null => "Null".into(),
        Value::Int(_) => "Int".into(),
        Value::Float(f) => if f.0.is_nan() { "Real.nan".into() } else if f.0 == 0.0 { "Real.zero".into() } else if f.0.is_infinite() { "Real.inf".into() } else { "Real".into() },
        Value::Bool(_) => "Bool".into(),
        Value::String(_) => "Text".into(),
        Value::Array(_, xs) => {
            let mut inner: Vec<String> = xs.iter().map(class).filter(|c| c.contains('.')).collect();
            inner.sort(); inner.dedup();
            if inner.is_empty() { "Arr".into() } else { format!("Arr({})", inner.join("+")) }
        }
        Value::Timestamp(_) => "Ts".into(),
        Value::Interval(_) => "Iv".into(),
    }
}

pub fn pool_specs() -> Vec<J> {
    let mut p: Vec<J> = vec![json!(["null"])];
    for i in [i64::MIN, i64::MIN + 1, -(1i64 << 53) - 1, -(1i64 << 53), -2, -1, 0, 1, 2, 3, 1 << 53, (1 << 53) + 1, i64::MAX - 1, i64::MAX] { p.push(json!(["int", i.to_string()])); }
    // NaNs with different bit patterns (quiet, negative - what sqrt(-1.0) returns on x86 -, with payload) must be one equality class
    for bits in [0xFFF8_0000_0000_0000u64, 0x7FF8_0000_0000_0001u64] { p.push(real_spec(f64::from_bits(bits))); }
    for x in [f64::NAN, f64::NEG_INFINITY, -1e308, -9007199254740992.0, -1.5, -1.0, -0.0, 0.0, 5e-324, 0.3, 0.30000000000000004, 0.3000000000000001, 0.5, 1.0, 1.5, 2.0, 3.0, 9007199254740992.0, 9.223372036854775807e18, 1e308, f64::INFINITY] { p.push(real_spec(x)); }
    p.push(json!(["bool", false])); p.push(json!(["bool", true]));
    for s in ["", "a", "A", "ab", "b", "\u{e5}", "a\u{0}", "\u{1F600}", "1", "NULL"] { p.push(json!(["text", s])); }
    p.push(json!(["arr", "int", []]));
    p.push(json!(["arr", "int", [["int", "1"]]]));
    p.push(json!(["arr", "int", [["int", "1"], ["int", "2"]]]));
    p.push(json!(["arr", "int", [["int", "2"]]]));
    p.push(json!(["arr", "int", [["null"]]]));
    p.push(json!(["arr", "int", [["null"], ["int", "1"]]]));
    p.push(json!(["arr", "real", []]));
    p.push(json!(["arr", "real", [real_spec(0.0)]]));
    p.push(json!(["arr", "real", [real_spec(-0.0)]]));
    p.push(json!(["arr", "real", [real_spec(f64::NAN)]]));
    p.push(json!(["arr", "real", [real_spec(1.0), real_spec(f64::NAN)]]));
    p.push(json!(["arr", "real", [real_spec(1.0), real_spec(2.0)]]));
    p.push(json!(["arr", "text", []]));
    p.push(json!(["arr", "text", [["text", "a"]]]));
    p.push(json!(["arr", "text", [["text", "a"], ["text", ""]]]));
    p.push(json!(["arr", "int[]", [["arr", "int", [["int", "1"]]], ["arr", "int", [["int", "2"]]]]]));
    p.push(json!(["arr", "int[]", [["arr", "int", [["int", "1"]]]]]));
    for t in [[2021, 3, 4, 5, 6, 7, 0], [2021, 3, 4, 5, 6, 7, 1], [2021, 3, 4, 5, 6, 8, 0], [1970, 1, 1, 0, 0, 0, 0], [1969, 12, 31, 23, 59, 59, 999999], [2000, 1, 1, 0, 0, 0, 0], [9999, 12, 31, 23, 59, 59, 0]] { p.push(json!(["ts", t])); }
    for s in ["0:00:00", "0:00:01", "-0:00:01", "1:00:00", "0:60:00", "-1:00:00", "100:00:00", "0:00:3600"] { p.push(json!(["iv", s])); }
    p
}

fn hash_default(v: &Value) -> u64 { let mut h = DefaultHasher::new(); v.hash(&mut h); h.finish() }
fn hash_fnv(v: &Value) -> u64 { let mut h = FnvHasher::default(); v.hash(&mut h); h.finish() }

fn pair_sig(law: &str, a: &Value, b: &Value) -> String {
    let mut c = [class(a), class(b)];
    c.sort();
    format!("law:{}|{}~{}", law, c[0], c[1])
}

fn show(v: &Value) -> String { RV::from_engine(v).show() }

/// pair laws; returns violations
fn check_pair(a: &Value, b: &Value, out: &mut Vec<Violation>, obs: &mut Obs) {
    obs.evals += 1;
    let (eq, cab, cba, pab) = (a == b, a.cmp(b), b.cmp(a), a.partial_cmp(b));
    let mut push = |law: &str, detail: String| {
        // INT/REAL cross-type order is one root cause whatever the REAL looks like
        let sig = if law == "numeric-order" { "law:numeric-order|Int~Real".to_owned() } else { pair_sig(law, a, b) };
        if !out.iter().any(|v| v.sig == sig) { out.push(Violation::new(sig, detail)); }
    };
    if eq != (cab == Ordering::Equal) { push("eq-vs-cmp", format!("a={} b={}: a==b is {} but a.cmp(b) is {:?}", show(a), show(b), eq, cab)); }
    if cab != cba.reverse() { push("antisymmetry", format!("a={} b={}: a.cmp(b)={:?} b.cmp(a)={:?}", show(a), show(b), cab, cba)); }
    if pab != Some(cab) { push("partial-vs-total", format!("a={} b={}: partial_cmp={:?} cmp={:?}", show(a), show(b), pab, cab)); }
    if (a < b) != (cab == Ordering::Less) || (a > b) != (cab == Ordering::Greater) { push("operators-vs-cmp", format!("a={} b={}: a<b={} a>b={} cmp={:?}", show(a), show(b), a < b, a > b, cab)); }
    if (a != b) == eq { push("ne-vs-eq", format!("a={} b={}", show(a), show(b))); }
    if eq && hash_default(a) != hash_default(b) { push("hash-siphash", format!("a={} b={}: equal but std hashes differ", show(a), show(b))); }
    if eq && hash_fnv(a) != hash_fnv(b) { push("hash-fnv", format!("a={} b={}: equal but FNV hashes differ", show(a), show(b))); }
    // numbers compare by numeric value, not by type
    match (a, b) {
        (Value::Int(i), Value::Float(f)) => if let Some(want) = cmp_int_real(*i, f.0) { if cab != want { push("numeric-order", format!("a={} b={}: cmp={:?} but numerically {:?}", show(a), show(b), cab, want)); } },
        (Value::Float(f), Value::Int(i)) => if let Some(want) = cmp_int_real(*i, f.0) { if cab != want.reverse() { push("numeric-order", format!("a={} b={}: cmp={:?} but numerically {:?}", show(a), show(b), cab, want.reverse())); } },
        _ => {}
    }
    // same-typed, non-NaN values: the order must be the reference order of that type
    let (ra, rb) = (RV::from_engine(a), RV::from_engine(b));
    if ra.ty().is_some() && ra.ty() == rb.ty() {
        if let Some(want) = cmp_ref(&ra, &rb) { if cab != want { push("order-of-type", format!("a={} b={}: cmp={:?} but the value order of the type says {:?}", show(a), show(b), cab, want)); } }
    }
}

/// the same laws on the WHERE comparison operators: `a op b` evaluated by the engine's expression evaluator on literal
/// operands. For two non-NULL values of one type (or INT with REAL) all six operators answer, exactly one of <, =, > holds,
/// <= / >= / != are their combinations and the answers agree with `Value`'s own order (INT with REAL: with the numeric order).
fn check_where_pair(a: &Value, b: &Value, out: &mut Vec<Violation>, obs: &mut Obs) {
    use sqlgrep::execution::execution_engine::{ExecutionConfig, ExecutionEngine};
    use sqlgrep::model::{CompareOperator, ExpressionTree, SelectStatement, Statement};
    if a.is_null() || b.is_null() { return; }
    let numeric_mix = matches!((a, b), (Value::Int(_), Value::Float(_)) | (Value::Float(_), Value::Int(_)));
    if !numeric_mix && a.value_type() != b.value_type() { return; }
    thread_local! { static TABLES: sqlgrep::data_model::Tables = crate::eng::tables_from(crate::monitors::c12::EVERYLINE).ok().expect("everyline table"); }
    // one statement per operator (an error of one operator must not hide the others): SELECT <a op b> FROM everyline, one input line
    let ask_with = |op: CompareOperator, right: &Value| -> Result<Option<bool>, String> {
        let tree = ExpressionTree::Compare { operator: op, left: Box::new(ExpressionTree::Value(a.clone())), right: Box::new(ExpressionTree::Value(right.clone())) };
        let stmt = Statement::Select(SelectStatement { projections: vec![("p0".to_owned(), tree)], from: "everyline".to_owned(), filename: None, filter: None, join: None, limit: None, distinct: false });
        let r = TABLES.with(|tables| guard(|| { let mut engine = ExecutionEngine::new(tables, &stmt); engine.execute("x".to_owned(), &ExecutionConfig::default()).map(|o| o.result_row.and_then(|rr| rr.data.into_iter().next()).and_then(|row| row.columns.into_iter().next())).map_err(|e| e.to_string()) }));
        match r { Ok(Ok(Some(Value::Bool(x)))) => Ok(Some(x)), Ok(Ok(Some(Value::Null))) => Ok(None), Ok(Ok(Some(other))) => Err(format!("value {}", show(&other))), Ok(Ok(None)) => Err("no row".into()), Ok(Err(e)) => Err(format!("error {}", e)), Err(p) => Err(p.describe()) }
    };
    let ask = |op: CompareOperator| ask_with(op, b);
    obs.evals += 1;
    obs.hit("where-pair");
    let r: Vec<Result<Option<bool>, String>> = vec![ask(CompareOperator::LessThan), ask(CompareOperator::Equal), ask(CompareOperator::GreaterThan), ask(CompareOperator::LessThanOrEqual), ask(CompareOperator::GreaterThanOrEqual), ask(CompareOperator::NotEqual)];
    let mut push = |law: &str, detail: String| { let sig = pair_sig(law, a, b); if !out.iter().any(|v| v.sig == sig) { out.push(Violation::new(sig, detail)); } };
    let answers: Option<Vec<bool>> = r.iter().map(|x| match x { Ok(Some(v)) => Some(*v), _ => None }).collect();
    let Some(v) = answers else { push("where-no-answer", format!("a={} b={}: < = > <= >= != answered {:?}", show(a), show(b), r)); return; };
    let (lt, eq, gt, le, ge, ne) = (v[0], v[1], v[2], v[3], v[4], v[5]);
    if (lt as u8) + (eq as u8) + (gt as u8) != 1 { push("where-trichotomy", format!("a={} b={}: a<b={} a=b={} a>b={}", show(a), show(b), lt, eq, gt)); return; }
    if le != (lt || eq) || ge != (gt || eq) || ne == eq { push("where-derived-operators", format!("a={} b={}: < {} = {} > {} <= {} >= {} != {}", show(a), show(b), lt, eq, gt, le, ge, ne)); return; }
    let got = if lt { Ordering::Less } else if eq { Ordering::Equal } else { Ordering::Greater };
    // INT with REAL: by numeric value - exactly, or after converting the INT to REAL (PostgreSQL's rule, what C03 accepts too)
    let wants: Vec<Ordering> = match (a, b) {
        (Value::Int(i), Value::Float(f)) => cmp_int_real(*i, f.0).into_iter().chain(std::iter::once(Value::Float(sqlgrep::model::Float(*i as f64)).cmp(b))).collect(),
        (Value::Float(f), Value::Int(i)) => cmp_int_real(*i, f.0).map(|o| o.reverse()).into_iter().chain(std::iter::once(a.cmp(&Value::Float(sqlgrep::model::Float(*i as f64))))).collect(),
        _ => vec![a.cmp(b)],
    };
    if !wants.contains(&got) { push("where-vs-order", format!("a={} b={}: WHERE says {:?}, the value order says {:?}", show(a), show(b), got, wants)); }
    // a timestamp against the same instant written as text ('YYYY-MM-DD hh:mm:ss'): the text is read as a timestamp, the
    // answers are those of the timestamp comparison (sub-second parts of the other operand included)
    if let (Value::Timestamp(_), RV::Ts(us)) = (a, RV::from_engine(b)) {
        let c = crate::val::parts_from_ts(us);
        if c.us == 0 && (0..=9999).contains(&c.y) {
            let text = Value::String(format!("{:04}-{:02}-{:02} {:02}:{:02}:{:02}", c.y, c.mo, c.d, c.h, c.mi, c.s));
            let via_text: Vec<Result<Option<bool>, String>> = vec![ask_with(CompareOperator::LessThan, &text), ask_with(CompareOperator::Equal, &text), ask_with(CompareOperator::GreaterThan, &text), ask_with(CompareOperator::LessThanOrEqual, &text), ask_with(CompareOperator::GreaterThanOrEqual, &text), ask_with(CompareOperator::NotEqual, &text)];
            let direct: Vec<Option<bool>> = vec![Some(lt), Some(eq), Some(gt), Some(le), Some(ge), Some(ne)];
            obs.hit("where-pair:timestamp-vs-text");
            if via_text.iter().map(|x| x.clone().ok().flatten()).collect::<Vec<_>>() != direct { push("where-timestamp-vs-text", format!("a={} against the text {}: < = > <= >= != answered {:?}, against the timestamp of that instant {:?}", show(a), show(&text), via_text, direct)); }
        }
    }
}

fn check_reflexive(a: &Value, out: &mut Vec<Violation>) {
    #[allow(clippy::eq_op)]
    if !(a == a) || a.cmp(a) != Ordering::Equal {
        let sig = format!("law:reflexivity|{}", class(a));
        if !out.iter().any(|v| v.sig == sig) { out.push(Violation::new(sig, format!("a={}: a==a is {}, a.cmp(a) is {:?}", show(a), a == a, a.cmp(a)))); }
    }
}

fn check_triple(a: &Value, b: &Value, c: &Value, out: &mut Vec<Violation>, obs: &mut Obs) {
    obs.evals += 1;
    let le = |x: &Value, y: &Value| x.cmp(y) != Ordering::Greater;
    let mut bad = None;
    if le(a, b) && le(b, c) && !le(a, c) { bad = Some("transitivity-le"); }
    else if a.cmp(b) == Ordering::Equal && b.cmp(c) == Ordering::Equal && a.cmp(c) != Ordering::Equal { bad = Some("transitivity-eq"); }
    else if a == b && b == c && a != c { bad = Some("transitivity-eqop"); }
    if let Some(law) = bad {
        let mut cl = [class(a), class(b), class(c)];
        cl.sort();
        let sig = format!("law:{}|{}~{}~{}", law, cl[0], cl[1], cl[2]);
        if !out.iter().any(|v| v.sig == sig) { out.push(Violation::new(sig, format!("a={} b={} c={}: cmp(a,b)={:?} cmp(b,c)={:?} cmp(a,c)={:?}", show(a), show(b), show(c), a.cmp(b), b.cmp(c), a.cmp(c)))); }
    }
}

// ---------------------------------------------------------------------------------------------
// consumer level

const REAL_TEXTS: &[&str] = &["0.0", "-0.0", "1.0", "1", "1.5", "-1.5", "2.5", "1e2", "100", "inf", "-inf", "NaN", "-NaN", "1e308", "5e-324", "0.1", "3",
    // integral values beyond the 64-bit and 53-bit integer ranges (distinct keys that conversions through integers would merge)
    "0.3", "0.30000000000000004", "0.3000000000000001", "1e19", "1e20", "9223372036854775808", "18446744073709551616", "-4e30", "-5e30", "9007199254740992", "9007199254740994", "-9223372036854775808", "-1e19", "1.7e308"];

fn real_class_key(x: f64) -> String { if x.is_nan() { "nan".into() } else if x == 0.0 { "0".into() } else { format!("{:?}", x) } }

fn consumer_case(rng: &mut Rng) -> J {
    let n = 2 + rng.below(14);
    let mut reals: Vec<String> = (0..n).map(|_| rng.pick(REAL_TEXTS).to_string()).collect();
    let filler = if rng.chance(1, 3) { 130 + rng.below(200) } else { 0 };
    // a large number of distinct values first, so that hash sets grow beyond their small-table regime
    let mut lines: Vec<String> = (0..filler).map(|i| format!("{}.25", 1000 + i)).collect();
    lines.append(&mut reals);
    json!({"kind": "consumer", "reals": lines, "mode": *rng.pick(&["group", "distinct", "count-distinct", "array-unique", "minmax", "join", "int-default"])})
}

fn check_consumer(case: &J, obs: &mut Obs) -> Verdict {
    let reals: Vec<String> = case["reals"].as_array().map(|a| a.iter().filter_map(|x| x.as_str().map(|s| s.to_owned())).collect()).unwrap_or_default();
    let mode = case["mode"].as_str().unwrap_or("group");
    obs.hit(&format!("consumer:{}", mode));
    let tables = match eng::tables_from("CREATE TABLE t ( { .r } => r REAL CONVERT , { .one } => one INT ) ;") { Ok(t) => t, Err(e) => return Verdict::Inconclusive(format!("table: {}", e.show())) };
    let lines: Vec<String> = reals.iter().map(|r| format!("{{\"r\":{},\"one\":1}}", serde_json::to_string(r).unwrap())).collect();
    let vals: Vec<f64> = reals.iter().map(|r| r.parse::<f64>().unwrap_or(f64::NAN)).collect();
    // reference partition
    let mut classes: Vec<(String, f64, usize)> = Vec::new();
    for v in &vals { let k = real_class_key(*v); if let Some(c) = classes.iter_mut().find(|c| c.0 == k) { c.2 += 1; } else { classes.push((k, *v, 1)); } }
    if classes.len() >= 2 && vals.iter().any(|v| v.is_nan() || *v == 0.0 || v.is_infinite()) { obs.nontrivial(); }
    let mut vs: Vec<Violation> = Vec::new();
    let special = |xs: &[f64]| -> String {
        let mut t = Vec::new();
        if xs.iter().any(|x| x.is_nan()) { t.push("nan"); }
        if xs.iter().any(|x| *x == 0.0 && x.is_sign_negative()) && xs.iter().any(|x| *x == 0.0 && x.is_sign_positive()) { t.push("zeros"); }
        if t.is_empty() { "plain".into() } else { t.join("+") }
    };
    let tag = special(&vals);
    let big = if vals.len() > 120 { "big-set" } else { "small-set" };
    let run = |sql: &str| -> Result<eng::RowsOut, String> {
        let stmt = eng::parse(sql).map_err(|e| e.show())?;
        eng::exec_batch(&tables, &stmt, &lines).map_err(|e| e.show())
    };
    let as_real = |v: &RV| -> Option<f64> { match v { RV::Real(x) => Some(*x), _ => None } };
    if mode == "int-default" {
        // a REAL column whose DEFAULT is written as a whole number: if the definition is accepted at all, the rows that take the
        // default are REAL values like the others - one group with the rows that read 0 / 0.0, keys in ascending order
        let defs = "CREATE TABLE t ( { .r } => r REAL DEFAULT 0 , { .one } => one INT ) ;";
        let Ok(tables2) = eng::tables_from(defs) else { obs.hit("consumer:int-default:definition-refused"); return Verdict::Inconclusive("whole-number-default-of-a-real-column-is-refused".into()) };
        let nums: Vec<f64> = vals.iter().cloned().filter(|x| x.is_finite()).collect();
        let lines2: Vec<String> = nums.iter().enumerate().map(|(i, x)| if i % 3 == 0 { "{\"one\":1}".to_string() } else { format!("{{\"r\":{:?},\"one\":1}}", x) }).collect();
        let eff: Vec<f64> = nums.iter().enumerate().map(|(i, x)| if i % 3 == 0 { 0.0 } else { *x }).collect();
        let mut want: Vec<(String, i64)> = Vec::new();
        for v in &eff { let k = real_class_key(*v); if let Some(c) = want.iter_mut().find(|c| c.0 == k) { c.1 += 1; } else { want.push((k, 1)); } }
        let res = eng::parse("SELECT r , COUNT ( * ) AS n FROM t GROUP BY r").map_err(|e| e.show()).and_then(|st| eng::exec_batch(&tables2, &st, &lines2).map_err(|e| e.show()));
        return match res {
            Err(e) => Verdict::Violated(vec![Violation::new("consumer:int-default|error", e)]),
            Ok(out) => {
                let mut got: Vec<(String, i64)> = out.rows.iter().map(|r| (match &r[0] { RV::Real(x) => real_class_key(*x), RV::Int(i) => real_class_key(*i as f64), o => o.show() }, match &r[1] { RV::Int(n) => *n, _ => -1 })).collect();
                let order_ok = { let ks: Vec<f64> = out.rows.iter().filter_map(|r| match &r[0] { RV::Real(x) => Some(*x), RV::Int(i) => Some(*i as f64), _ => None }).collect(); ks.windows(2).all(|w| w[0] < w[1]) };
                got.sort(); want.sort();
                if got != want { Verdict::Violated(vec![Violation::new("consumer:int-default|partition", format!("lines {:?}: groups {:?}, reference classes {:?}", lines2, got, want))]) }
                else if !order_ok { Verdict::Violated(vec![Violation::new("consumer:int-default|order", format!("group keys not ascending: {:?}", out.rows.iter().map(|r| r[0].show()).collect::<Vec<_>>()))]) }
                else { Verdict::Held }
            }
        };
    }
    match mode {
        "group" => match run("SELECT r , COUNT ( * ) AS n FROM t GROUP BY r") {
            Err(e) => vs.push(Violation::new(format!("consumer:group|{}|error", tag), e)),
            Ok(out) => {
                let mut got: Vec<(String, i64)> = Vec::new();
                for row in &out.rows { if let (Some(k), RV::Int(n)) = (as_real(&row[0]), &row[1]) { got.push((real_class_key(k), *n)); } }
                let mut want: Vec<(String, i64)> = classes.iter().map(|c| (c.0.clone(), c.2 as i64)).collect();
                let mut g2 = got.clone(); g2.sort(); want.sort();
                if g2 != want { vs.push(Violation::new(format!("consumer:group|{}|partition", tag), format!("values {:?}: groups {:?}, reference classes {:?}", reals, got, want))); }
                else {
                    // ascending order of the non-NaN keys
                    let keys: Vec<f64> = out.rows.iter().filter_map(|r| as_real(&r[0])).filter(|x| !x.is_nan()).collect();
                    if keys.windows(2).any(|w| !(w[0] < w[1])) { vs.push(Violation::new(format!("consumer:group|{}|order", tag), format!("group keys not ascending: {:?}", keys))); }
                    // ... and of all keys by the engine's own order (where NaN sorts is the order's business, but it is one place)
                    let all: Vec<Value> = out.rows.iter().filter_map(|r| as_real(&r[0])).filter_map(|x| mk(&real_spec(x))).collect();
                    if all.windows(2).any(|w| w[0] >= w[1]) { vs.push(Violation::new(format!("consumer:group|{}|order-of-the-value-order", tag), format!("group keys not ascending by the value order: {:?}", out.rows.iter().map(|r| r[0].show()).collect::<Vec<_>>()))); }
                }
            }
        },
        "distinct" => match run("SELECT DISTINCT r FROM t") {
            Err(e) => vs.push(Violation::new(format!("consumer:distinct|{}|error", tag), e)),
            Ok(out) => {
                let got: Vec<String> = out.rows.iter().filter_map(|r| as_real(&r[0])).map(real_class_key).collect();
                let want: Vec<String> = classes.iter().map(|c| c.0.clone()).collect();
                if got != want { vs.push(Violation::new(format!("consumer:distinct|{}|{}|partition", tag, big), format!("{} values: DISTINCT kept {} rows, reference has {} classes (first difference at {:?})", reals.len(), got.len(), want.len(), got.iter().zip(want.iter()).position(|(a, b)| a != b)))); }
            }
        },
        "count-distinct" => match run("SELECT COUNT ( DISTINCT r ) AS n FROM t") {
            Err(e) => vs.push(Violation::new(format!("consumer:count-distinct|{}|error", tag), e)),
            Ok(out) => {
                let got = out.rows.first().and_then(|r| match &r[0] { RV::Int(n) => Some(*n), _ => None });
                if got != Some(classes.len() as i64) { vs.push(Violation::new(format!("consumer:count-distinct|{}|count", tag), format!("values {:?}: COUNT(DISTINCT) = {:?}, reference {}", if reals.len() < 30 { reals.clone() } else { vec![] }, got, classes.len()))); }
            }
        },
        "minmax" => match run("SELECT MIN ( r ) AS lo , MAX ( r ) AS hi , PERCENTILE ( r , 0.0 ) AS p0 , PERCENTILE ( r , 1.0 ) AS p1 FROM t") {
            Err(e) => vs.push(Violation::new(format!("consumer:minmax|{}|error", tag), e)),
            Ok(out) => {
                // with NaN among the values: the extremes of the engine's own order (the one the law checks certify as a total
                // order and WHERE uses) - MIN / MAX / PERCENTILE 0 and 1 must be its least and greatest element, in any arrival order
                let engine_vals: Vec<Value> = vals.iter().filter_map(|x| mk(&real_spec(*x))).collect();
                if engine_vals.len() == vals.len() && !engine_vals.is_empty() {
                    let lo = engine_vals.iter().min().cloned().unwrap();
                    let hi = engine_vals.iter().max().cloned().unwrap();
                    let key = |v: &Value| match RV::from_engine(v) { RV::Real(x) => real_class_key(x), other => other.show() };
                    let got: Option<Vec<String>> = out.rows.first().map(|r| r.iter().map(|c| as_real(c).map(real_class_key).unwrap_or_else(|| c.show())).collect());
                    let want = vec![key(&lo), key(&hi), key(&lo), key(&hi)];
                    if got.as_ref() != Some(&want) { vs.push(Violation::new(format!("consumer:minmax|{}|not-the-extremes-of-the-order", tag), format!("values {:?}: MIN, MAX, PERCENTILE 0, PERCENTILE 1 = {:?}, least and greatest by the value order = {:?}", if reals.len() < 30 { reals.clone() } else { vec![] }, got, want))); }
                }
                let finite: Vec<f64> = vals.iter().cloned().filter(|x| !x.is_nan()).collect();
                if !finite.is_empty() && !vals.iter().any(|x| x.is_nan()) {
                    let lo = finite.iter().cloned().fold(f64::INFINITY, f64::min);
                    let hi = finite.iter().cloned().fold(f64::NEG_INFINITY, f64::max);
                    let got = out.rows.first().map(|r| (as_real(&r[0]), as_real(&r[1])));
                    if got != Some((Some(lo), Some(hi))) { vs.push(Violation::new(format!("consumer:minmax|{}|value", tag), format!("values {:?}: got {:?}, want ({}, {})", if reals.len() < 30 { reals.clone() } else { vec![] }, got, lo, hi))); }
                }
            }
        },
        "array-unique" => {
            let small: Vec<&String> = reals.iter().rev().take(6).collect();
            let lits: Vec<String> = small.iter().map(|r| format!("( '{}' :: real )", r)).collect();
            let sql = format!("SELECT array_unique ( array [ {} ] ) AS u FROM t LIMIT 1", lits.join(" , "));
            match run(&sql) {
                Err(e) => vs.push(Violation::new(format!("consumer:array-unique|{}|error", tag), e)),
                Ok(out) => {
                    let xs: Vec<f64> = small.iter().map(|r| r.parse::<f64>().unwrap_or(f64::NAN)).collect();
                    let mut want: Vec<String> = xs.iter().map(|x| real_class_key(*x)).collect(); want.sort(); want.dedup();
                    let got: Option<Vec<String>> = out.rows.first().and_then(|r| match &r[0] { RV::Arr(_, e) => Some(e.iter().filter_map(as_real).map(real_class_key).collect()), _ => None });
                    let mut g = got.clone().unwrap_or_default(); g.sort();
                    if got.is_none() || g != want { vs.push(Violation::new(format!("consumer:array-unique|{}|set", special(&xs)), format!("array_unique({:?}) = {:?}, reference set {:?}", small, got, want))); }
                }
            }
        }
        _ => {
            // join on the REAL key: every row of t must find exactly the rows of u in its class
            let upath = eng::write_scratch(&format!("c16-join-{}.json", crate::rng::fnv1a(serde_json::to_string(case).unwrap().as_bytes())), lines.join("\n").as_bytes());
            let defs = "CREATE TABLE t ( { .r } => r REAL CONVERT , { .one } => one INT ) ; CREATE TABLE u ( { .r } => r REAL CONVERT , { .one } => one INT ) ;";
            let tables2 = match eng::tables_from(defs) { Ok(t) => t, Err(e) => return Verdict::Inconclusive(format!("table: {}", e.show())) };
            let sql = format!("SELECT t.r , u.r FROM t INNER JOIN u :: '{}' ON t.r = u.r", upath.display());
            let res = eng::parse(&sql).map_err(|e| e.show()).and_then(|stmt| eng::exec_batch(&tables2, &stmt, &lines).map_err(|e| e.show()));
            let _ = std::fs::remove_file(&upath);
            match res {
                Err(e) => vs.push(Violation::new(format!("consumer:join|{}|error", tag), e)),
                Ok(out) => {
                    let want: usize = classes.iter().map(|c| c.2 * c.2).sum();
                    let mismatched = out.rows.iter().filter(|r| match (as_real(&r[0]), as_real(&r[1])) { (Some(a), Some(b)) => real_class_key(a) != real_class_key(b), _ => true }).count();
                    if out.rows.len() != want || mismatched > 0 { vs.push(Violation::new(format!("consumer:join|{}|pairs", tag), format!("{} joined pairs ({} mismatched), reference {}", out.rows.len(), mismatched, want))); }
                }
            }
        }
    }
    if vs.is_empty() { Verdict::Held } else { Verdict::Violated(vs) }
}

fn random_value(rng: &mut Rng, depth: u32) -> J {
    match rng.below(if depth == 0 { 7 } else { 9 }) {
        0 => json!(["null"]),
        1 | 2 => json!(["int", (*rng.pick(&[0i64, 1, -1, 2, i64::MAX, i64::MIN, 1 << 53, 7])).to_string()]),
        3 | 4 => real_spec(*rng.pick(&[0.0, -0.0, 1.0, 2.0, f64::NAN, f64::from_bits(0xFFF8_0000_0000_0000), f64::INFINITY, f64::NEG_INFINITY, 0.5, 9007199254740992.0])),
        5 => json!(["text", *rng.pick(&["", "a", "b", "ab"])]),
        6 => json!(["bool", rng.chance(1, 2)]),
        _ => {
            let n = rng.below(4);
            let elem = *rng.pick(&["int", "real", "text"]);
            let items: Vec<J> = (0..n).map(|_| match elem {
                "int" => if rng.chance(1, 5) { json!(["null"]) } else { json!(["int", rng.range(-1, 3).to_string()]) },
                "real" => real_spec(*rng.pick(&[0.0, -0.0, 1.0, f64::NAN, 2.0])),
                _ => json!(["text", *rng.pick(&["", "a", "b"])]),
            }).collect();
            json!(["arr", elem, items])
        }
    }
}

impl Monitor for C16 {
    fn id(&self) -> &'static str { "C16" }
    fn rule(&self) -> &'static str {
        "law checker: every pool value as anchor x all pool pairs (eq<=>cmp, antisymmetry, partial_cmp==cmp, operators, hash under SipHash and FNV, INT/REAL numeric order, per-type value order; the six WHERE operators evaluated by the engine on the pair: all answer, trichotomy, derived operators, agreement with the value order) and all pool triples (transitivity); random triples of nested values; consumer level: GROUP BY / DISTINCT / COUNT(DISTINCT) / array_unique / MIN / MAX / PERCENTILE 0 and 1 (= least / greatest element of the engine's own order, NaN included) / JOIN over REAL keys incl. -0.0, inf, NaN, neighbouring doubles, with small and >128-element sets. Non-trivial = anchor case (each covers >= 2 distinct values of one type and INT-REAL pairs) or consumer case with >= 2 classes and a special REAL; distinct by case hash"
    }
    fn assumptions(&self) -> Vec<String> { vec!["reference equality: numbers by value, -0.0 = 0.0, NaN equal to itself and to nothing else".into()] }
    fn sizes(&self, tier: Tier) -> Sizes { match tier { Tier::Quick => Sizes { cases: 6_000, min_nontrivial: 60 }, Tier::Thorough => Sizes { cases: 400_000, min_nontrivial: 60 } } }
    fn exhaustive_note(&self) -> Option<String> { Some(format!("all ordered pairs and triples of the {}-value pool (kind=anchor)", pool_specs().len())) }

    fn enumerate(&self, _tier: Tier, emit: &mut dyn FnMut(J)) {
        for spec in pool_specs() { emit(json!({"kind": "anchor", "a": spec})); }
    }

    fn generate(&self, rng: &mut Rng, _tier: Tier) -> J {
        if rng.chance(1, 2) { consumer_case(rng) }
        else { json!({"kind": "triple", "vals": [random_value(rng, 1), random_value(rng, 1), random_value(rng, 1)]}) }
    }

    fn check(&self, case: &J, obs: &mut Obs) -> Verdict {
        match case["kind"].as_str().unwrap_or("") {
            "anchor" => {
                let Some(a) = mk(&case["a"]) else { return Verdict::Inconclusive("bad-spec".into()) };
                let pool: Vec<Value> = pool_specs().iter().filter_map(mk).collect();
                let mut vs = Vec::new();
                check_reflexive(&a, &mut vs);
                for b in &pool {
                    check_pair(&a, b, &mut vs, obs);
                    check_where_pair(&a, b, &mut vs, obs);
                    for c in &pool { check_triple(&a, b, c, &mut vs, obs); }
                }
                obs.nontrivial();
                obs.hit(&format!("anchor:{}", class(&a)));
                if vs.is_empty() { Verdict::Held } else { Verdict::Violated(vs) }
            }
            "triple" => {
                let vals: Vec<Value> = case["vals"].as_array().map(|a| a.iter().filter_map(mk).collect()).unwrap_or_default();
                if vals.len() != 3 { return Verdict::Inconclusive("bad-spec".into()); }
                let mut vs = Vec::new();
                for x in &vals { check_reflexive(x, &mut vs); }
                for x in &vals { for y in &vals { check_pair(x, y, &mut vs, obs); check_where_pair(x, y, &mut vs, obs); } }
                for p in [[0, 1, 2], [0, 2, 1], [1, 0, 2], [1, 2, 0], [2, 0, 1], [2, 1, 0]] { check_triple(&vals[p[0]], &vals[p[1]], &vals[p[2]], &mut vs, obs); }
                let (r0, r1) = (RV::from_engine(&vals[0]), RV::from_engine(&vals[1]));
                if r0.ty() == r1.ty() && eq_ref(&r0, &r1) != Some(true) { obs.nontrivial(); }
                obs.hit("triple");
                if vs.is_empty() { Verdict::Held } else { Verdict::Violated(vs) }
            }
            "consumer" => check_consumer(case, obs),
            _ => Verdict::Inconclusive("malformed-case".into()),
        }
    }
}

/// reduced law check for interpreters (Miri): every 3rd pool value without timestamps (no time-zone database access)
pub fn laws_small() -> (u64, u64, Vec<String>) {
    let pool: Vec<Value> = pool_specs().iter().filter(|s| s[0] != "ts").step_by(3).filter_map(mk).collect();
    let mut obs = Obs::default();
    let mut vs: Vec<Violation> = Vec::new();
    let (mut pairs, mut triples) = (0u64, 0u64);
    for a in &pool {
        check_reflexive(a, &mut vs);
        for b in &pool {
            check_pair(a, b, &mut vs, &mut obs); pairs += 1;
            for c in &pool { check_triple(a, b, c, &mut vs, &mut obs); triples += 1; }
        }
    }
    (pairs, triples, vs.into_iter().filter(|v| v.sig != "law:numeric-order|Int~Real").map(|v| format!("{} :: {}", v.sig, v.detail)).collect())
}
