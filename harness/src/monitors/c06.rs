//! C06 — lines that yield no row are invisible to every query.
//! Noise lines are certified non-admitted by the *reference* extraction, then inserted at random positions;
//! every output (batch, per-line incremental, LIMIT, either side of a join) must be unchanged.

use serde_json::{json, Value as J};

use crate::ast::*;
use crate::eng;
use crate::gen::*;
use crate::monitors::relcommon::*;
use crate::refx::*;
use crate::rng::Rng;
use crate::runner::*;

pub struct C06;

/// is this line certainly not a row of the table, by the reference extraction?
fn certified_noise(spec: &TableSpec, line: &str, doc: Option<&JV>, is_doc_known: bool) -> bool {
    let Some(ctx) = eval_patterns(spec, line) else { return false };
    let json_table = spec.cols.iter().any(|c| matches!(c.src, Src::Json(_)));
    if json_table && !is_doc_known { return false; }
    let accepts: Vec<Accept> = spec.cols.iter().enumerate().map(|(ci, c)| if matches!(c.src, Src::Json(_)) { expect_json_column(c, doc) } else { expect_regex_column(spec, ci, &ctx) }).collect();
    let only_null = |a: &Accept| a.vals.iter().all(|v| v.is_null());
    if accepts.iter().all(only_null) { return true; }
    if accepts.iter().all(|a| a.situation == "pattern-unmatched") && spec.cols.iter().all(|c| c.default_expr().is_none()) { return true; }
    spec.cols.iter().zip(accepts.iter()).any(|(c, a)| c.not_null() && only_null(a))
}

impl Monitor for C06 {
    fn id(&self) -> &'static str { "C06" }
    fn rule(&self) -> &'static str {
        "base case (plain / DISTINCT / aggregate / join / join-aggregate statement, sometimes with LIMIT n, over a standard table that may declare one column NOT NULL) + 1-10 noise lines certified non-admitted by the reference extraction (non-matching text, empty lines, truncated / non-JSON documents, documents with only wrong-typed or absent fields, lines failing the NOT NULL column, near misses) inserted at random positions incl. first and last, also into the joined file. Oracle: batch output identical with and without noise; incremental per-line outputs identical once the noise positions are removed, and a noise line produces no output. Non-trivial = a noise line lies strictly between two admitted lines and the base output is non-empty; distinct by case hash"
    }
    fn assumptions(&self) -> Vec<String> { vec!["non-admission of the noise lines is decided by the reference extraction of C01/C02, not by the engine".into()] }
    fn sizes(&self, tier: Tier) -> Sizes { match tier { Tier::Quick => Sizes { cases: 9_000, min_nontrivial: 2_000 }, Tier::Thorough => Sizes { cases: 300_000, min_nontrivial: 60_000 } } }

    fn generate(&self, rng: &mut Rng, _tier: Tier) -> J {
        let not_null = rng.chance(1, 3);
        let (mut case, t, mut sel, shape) = gen_base(rng, &BaseCfg { shapes: &[Shape::Plain, Shape::Distinct, Shape::Aggregate, Shape::Aggregate, Shape::Join, Shape::JoinAggregate], allow_limit: true, allow_having: true, agg_distinct: false, order_insensitive_only: false, exact_data: true, min_lines: 2, max_lines: 16, not_null_column: not_null, big_rate: 300, big_lines: 800 });
        if !matches!(shape, Shape::Aggregate | Shape::JoinAggregate) && rng.chance(1, 3) { sel.limit = Some(rng.below(6) as u64); case["stmt"] = json!(sel.text(Paren::Full)); }
        // regex flavour, sometimes: TEXT fields are optional non-empty groups, so that a line with every field present but
        // empty matches the pattern and still obtains no value at all (not even an empty string)
        let mut t = t;
        if !t.json && rng.chance(1, 3) {
            for p in t.spec.patterns.iter_mut() { p.regex = p.regex.replace("([^|]*)", "([^|]+)?"); }
            let mut u = t.spec.clone(); u.name = "u".into();
            case["tables"] = json!(format!("{} {}", t.spec.text(), u.text()));
        }
        // JSON flavour, sometimes: CONVERT on the TEXT columns too (a JSON string converts to itself; null, numbers and the other
        // non-strings give no value)
        if t.json && rng.chance(1, 4) {
            for c in t.spec.cols.iter_mut() { if c.ty == crate::val::Ty::Text && c.modifier == Modifier::None { c.modifier = Modifier::Convert; } }
            let mut u = t.spec.clone(); u.name = "u".into();
            case["tables"] = json!(format!("{} {}", t.spec.text(), u.text()));
        }
        // the table of this case, as the generator built it (t may carry the NOT NULL modifier)
        case["spec"] = t.spec.to_json();
        let n = case["lines"].as_array().map(|a| a.len()).unwrap_or(0);
        let k = 1 + rng.below(10);
        let mut noise: Vec<J> = Vec::new();
        for _ in 0..k {
            let pos = match rng.below(5) { 0 => 0, 1 => n, _ => rng.below(n + 1) };
            let (line, doc): (String, J) = if t.json {
                match rng.below(11) {
                    // every field present and explicitly null / every field an empty container
                    9 => { let fields: Vec<(String, JV)> = t.schema.cols.iter().map(|(n, _)| (n.clone(), JV::Null)).collect();
                           (format!("{{{}}}", fields.iter().map(|(n, _)| format!("{}:null", json_str(n))).collect::<Vec<_>>().join(",")), JV::Obj(fields).to_case()) }
                    10 => { let fields: Vec<(String, JV)> = t.schema.cols.iter().map(|(n, _)| (n.clone(), if rng.chance(1, 2) { JV::Obj(vec![]) } else { JV::Arr(vec![]) })).collect();
                            (format!("{{{}}}", fields.iter().map(|(n, v)| format!("{}:{}", json_str(n), if matches!(v, JV::Obj(_)) { "{}" } else { "[]" })).collect::<Vec<_>>().join(",")), JV::Obj(fields).to_case()) }
                    0 => (String::new(), J::Null), 1 => ("   ".into(), J::Null), 2 => ("not json at all".into(), J::Null), 3 => ("{\"k\":".into(), J::Null), 4 => ("{} {}".into(), J::Null),
                    5 => ("{}".into(), JV::Obj(vec![]).to_case()),
                    6 => ("{\"unrelated\": 1, \"K\": \"a\"}".into(), JV::Obj(vec![("unrelated".into(), JV::Num("1".into())), ("K".into(), JV::Str("a".into()))]).to_case()),
                    7 => ("{\"k\":5,\"g\":\"x\",\"i\":\"7\",\"r\":\"1.5\",\"b\":1,\"s\":false,\"ia\":3,\"sa\":\"a\",\"ts\":5,\"iv\":6}".into(),
                          JV::Obj(vec![("k".into(), JV::Num("5".into())), ("g".into(), JV::Str("x".into())), ("i".into(), JV::Str("7".into())), ("r".into(), JV::Str("1.5".into())), ("b".into(), JV::Num("1".into())), ("s".into(), JV::Bool(false)), ("ia".into(), JV::Num("3".into())), ("sa".into(), JV::Str("a".into())), ("ts".into(), JV::Num("5".into())), ("iv".into(), JV::Num("6".into()))]).to_case()),
                    _ => {
                        // a regular line on which the NOT NULL column (if any) is NULL
                        let dc = DataCfg { null_rate: t.schema.cols.iter().map(|(c, _)| if c == "g" || c == "i" { 1000 } else { 300 }).collect(), hostile: false, keys: 3, exact: true, big_ints: false, zeros: false, mid_ints: false, huge_reals: false, ulp_reals: false };
                        let cells: Vec<Cell> = t.schema.cols.iter().enumerate().map(|(ci, (name, ty))| std_cell(rng, name, ty, &dc, ci)).collect();
                        (render_line(&t, &cells), cells_to_jv(&t, &cells).to_case())
                    }
                }
            } else {
                match rng.below(9) {
                    7 | 8 => (t.schema.cols.iter().map(|(n, ty)| if matches!(ty, crate::val::Ty::Arr(_)) { format!("{}=,,", n) } else { format!("{}=", n) }).collect::<Vec<_>>().join("|"), J::Null),
                    0 => (String::new(), J::Null), 1 => ("garbage".into(), J::Null), 2 => ("k=a|g=1".into(), J::Null), 3 => (" k=a".into(), J::Null),
                    4 => { let base = strs(&case, "lines"); let l = base.get(rng.below(base.len().max(1))).cloned().unwrap_or_default(); (format!("{}|extra", l), J::Null) }
                    5 => { let base = strs(&case, "lines"); let l = base.get(rng.below(base.len().max(1))).cloned().unwrap_or_default(); (l.replacen('=', ":", 1), J::Null) }
                    _ => {
                        let dc = DataCfg { null_rate: t.schema.cols.iter().map(|(c, _)| if c == "g" || c == "i" { 1000 } else { 300 }).collect(), hostile: false, keys: 3, exact: true, big_ints: false, zeros: false, mid_ints: false, huge_reals: false, ulp_reals: false };
                        let cells: Vec<Cell> = t.schema.cols.iter().enumerate().map(|(ci, (name, ty))| std_cell(rng, name, ty, &dc, ci)).collect();
                        (render_line(&t, &cells), J::Null)
                    }
                }
            };
            noise.push(json!({"pos": pos, "line": line, "doc": doc, "doc_known": t.json, "where": if case["joined"].is_array() && rng.chance(1, 3) { "joined" } else { "main" }}));
        }
        case["noise"] = json!(noise);
        case
    }

    fn check(&self, case: &J, obs: &mut Obs) -> Verdict {
        let base = match Base::from_case(case) { Ok(b) => b, Err(e) => return Verdict::Inconclusive(e) };
        let Some(spec) = TableSpec::from_json(&case["spec"]) else { return Verdict::Inconclusive("malformed-case".into()) };
        let shape = case["shape"].as_str().unwrap_or("?").to_owned();
        // keep only certified noise
        let mut main_ins: Vec<(usize, String)> = Vec::new();
        let mut joined_ins: Vec<(usize, String)> = Vec::new();
        for nz in case["noise"].as_array().map(|a| a.as_slice()).unwrap_or(&[]) {
            let line = nz["line"].as_str().unwrap_or("").to_owned();
            let doc = if nz["doc"].is_null() { None } else { JV::from_case(&nz["doc"]) };
            // a JSON document we did not write down is only known to be a non-document if it was generated as such
            let known = nz["doc_known"].as_bool().unwrap_or(false);
            if !certified_noise(&spec, &line, doc.as_ref(), known) { obs.hit("noise:not-certified"); continue; }
            obs.hit("noise:certified");
            let pos = nz["pos"].as_u64().unwrap_or(0) as usize;
            if nz["where"] == "joined" { joined_ins.push((pos, line)); } else { main_ins.push((pos, line)); }
        }
        if main_ins.is_empty() && joined_ins.is_empty() { return Verdict::Inconclusive("no-certified-noise".into()); }
        let weave = |lines: &[String], ins: &[(usize, String)]| -> (Vec<String>, Vec<bool>) {
            let mut out = Vec::new(); let mut is_noise = Vec::new();
            for i in 0..=lines.len() {
                for (p, l) in ins { if (*p).min(lines.len()) == i { out.push(l.clone()); is_noise.push(true); } }
                if i < lines.len() { out.push(lines[i].clone()); is_noise.push(false); }
            }
            (out, is_noise)
        };
        let (noisy_lines, flags) = weave(&base.lines, &main_ins);
        let noisy_joined: Option<Vec<String>> = base.joined.as_ref().map(|j| weave(j, &joined_ins).0);
        let inner = flags.iter().enumerate().any(|(i, f)| *f && flags[..i].iter().any(|x| !x) && flags[i + 1..].iter().any(|x| !x));

        let p0 = match base.prepare("a") { Ok(p) => p, Err(e) => return Verdict::Inconclusive(format!("stmt: {}", e.show().chars().take(40).collect::<String>())) };
        let p1 = match base.prepare_with(&base.sql, noisy_joined.as_deref(), "b") { Ok(p) => p, Err(_) => return Verdict::Inconclusive("stmt".into()) };
        let lim = if base.sql.contains(" LIMIT ") { "|limit" } else { "" };
        obs.hit(&format!("shape:{}{}", shape, lim));
        let mut vs: Vec<Violation> = Vec::new();
        // batch
        let (a, b) = (base.batch(&p0, &base.lines), base.batch(&p1, &noisy_lines));
        match (&a, &b) {
            (Err(eng::EngErr::Panic(p)), _) | (_, Err(eng::EngErr::Panic(p))) => vs.push(Violation::new(format!("noise|{}{}|panic:{}", shape, lim, p.class()), p.describe())),
            (Err(_), Err(_)) => return Verdict::Inconclusive("both-error".into()),
            (Ok(x), Ok(y)) => {
                if inner && !x.rows.is_empty() { obs.nontrivial(); }
                if !same_rows(x, y, 0.0) { vs.push(Violation::new(format!("noise|{}{}|batch-output-differs", shape, lim), format!("{:?}: without noise {} ; with {} certified noise lines {}", base.sql, show_rows(x, 3), main_ins.len() + joined_ins.len(), show_rows(y, 3)))); }
            }
            (x, y) => vs.push(Violation::new(format!("noise|{}{}|error-differs", shape, lim), format!("{:?}: without noise {:?}, with noise {:?}", base.sql, x.as_ref().err().map(|e| e.show()), y.as_ref().err().map(|e| e.show())))),
        }
        // incremental (the path follow mode uses), LIMIT-free statements
        if lim.is_empty() && vs.is_empty() {
            let (oa, ea) = eng::exec_lines(&base.tables, &p0.stmt, &base.lines, true, true);
            let (ob, eb) = eng::exec_lines(&base.tables, &p1.stmt, &noisy_lines, true, true);
            if ea.is_none() && eb.is_none() {
                let mut kept = Vec::new();
                for (o, f) in ob.iter().zip(flags.iter()) {
                    if *f { if o.out.is_some() { vs.push(Violation::new(format!("noise|{}|noise-line-produced-output", shape), format!("{:?}: a certified noise line produced {}", base.sql, o.out.as_ref().map(|r| show_rows(r, 2)).unwrap_or_default()))); break; } }
                    else { kept.push(o); }
                }
                if vs.is_empty() {
                    let differs = kept.len() != oa.len() || kept.iter().zip(oa.iter()).any(|(x, y)| match (&x.out, &y.out) { (None, None) => false, (Some(p), Some(q)) => !same_rows(p, q, 0.0), _ => true });
                    if differs { vs.push(Violation::new(format!("noise|{}|incremental-outputs-differ", shape), format!("{:?}: the per-line outputs change when certified noise lines are interleaved", base.sql))); }
                }
            } else if ea.is_some() != eb.is_some() { vs.push(Violation::new(format!("noise|{}|incremental-error-differs", shape), format!("{:?}", base.sql))); }
        }
        if vs.is_empty() { Verdict::Held } else { Verdict::Violated(vs) }
    }
}
