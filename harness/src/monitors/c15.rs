//! C15 — order-insensitive aggregates ignore line order and how the input is split.

use std::cmp::Ordering;

use serde_json::{json, Value as J};

use crate::ast::*;
use crate::eng::{self, RowsOut};
use crate::gen::*;
use crate::monitors::relcommon::*;
use crate::rng::Rng;
use crate::runner::*;
use crate::val::*;

pub struct C15;

fn combine(kind: &str, a: &RV, b2: &RV) -> Option<RV> {
    match (kind, a, b2) {
        (_, RV::Null, x) | (_, x, RV::Null) if kind != "count" => Some(x.clone()),
        ("count", RV::Int(x), RV::Int(y)) | ("sum", RV::Int(x), RV::Int(y)) => x.checked_add(*y).map(RV::Int),
        ("sum", RV::Real(x), RV::Real(y)) => Some(RV::Real(x + y)),
        ("min", x, y) => Some(if cmp_ref(x, y)? == Ordering::Greater { y.clone() } else { x.clone() }),
        ("max", x, y) => Some(if cmp_ref(x, y)? == Ordering::Less { y.clone() } else { x.clone() }),
        _ => None,
    }
}

impl Monitor for C15 {
    fn id(&self) -> &'static str { "C15" }
    fn rule(&self) -> &'static str {
        "kind=permute: aggregate statement over COUNT / SUM / MIN / MAX / AVG / STDDEV / VARIANCE / PERCENTILE / BOOL_AND / BOOL_OR / COUNT(DISTINCT) with any GROUP BY / WHERE / HAVING (REAL data are multiples of 1/8, INT data small) over 5-40 lines; 8 random permutations + reversal + sorted ascending / descending (NULL-first, extreme-last arrivals) must give the same table. kind=split: keys + COUNT(*) / COUNT(c) / SUM / MIN / MAX statement; for every cut point the result over A||B must be the key-wise combination of the results over A and over B (counts and sums add, minima / maxima combine, groups = union). Non-trivial = >= 2 groups and one group with >= 3 rows; distinct by (case, permutation or cut) hash"
    }
    fn assumptions(&self) -> Vec<String> { vec!["REAL inputs are dyadic rationals of small magnitude, so sums are exact in any order".into(), "the combiner (add / min / max by the reference order, union of groups) is the only trusted code of the split relation".into()] }
    fn sizes(&self, tier: Tier) -> Sizes { match tier { Tier::Quick => Sizes { cases: 3_000, min_nontrivial: 8_000 }, Tier::Thorough => Sizes { cases: 150_000, min_nontrivial: 400_000 } } }

    fn generate(&self, rng: &mut Rng, _tier: Tier) -> J {
        let (mut case, t, _sel, _shape) = gen_base(rng, &BaseCfg { shapes: &[Shape::Aggregate], allow_limit: false, allow_having: true, agg_distinct: false, order_insensitive_only: true, exact_data: true, min_lines: 5, max_lines: 40, not_null_column: false, big_rate: 200, big_lines: 800 });
        if case["exact_ints"] != true && rng.chance(1, 3) {
            // a combinable statement for the split relation
            let key = if rng.chance(1, 2) { col("k") } else { col("g") };
            let mut sel = Sel { from: "t".into(), group_by: Some(vec![key.clone()]), ..Default::default() };
            sel.projs.push((key, None));
            let mut kinds = vec!["key".to_string()];
            for _ in 0..(1 + rng.below(4)) {
                let (k, e) = match rng.below(6) {
                    0 => ("count", E::Agg("count".into(), false, vec![E::Star])),
                    1 => { let c = &t.schema.cols[rng.below(t.schema.cols.len())]; ("count", E::Agg("count".into(), false, vec![col(&c.0)])) }
                    // (sums of 2^62-sized integers overflow for some split points and orders only: not part of the big-integer cases)
                    2 if case["big_ints"] != true => ("sum", E::Agg("sum".into(), false, vec![col(if t.schema.ty_of("r").is_some() && rng.chance(1, 2) { "r" } else { "i" })])),
                    3 | 4 => { let c = *rng.pick(if t.schema.ty_of("r").is_some() { &["i", "k", "g", "r"][..] } else { &["i", "k", "g"][..] }); (*rng.pick(&["min", "max"]), E::Agg("min".into(), false, vec![col(c)])) }
                    _ => ("count", E::Agg("count".into(), false, vec![col("i")])),
                };
                let e = if let E::Agg(_, d, a) = &e { if k == "max" { E::Agg("max".into(), *d, a.clone()) } else { e.clone() } } else { e };
                kinds.push(k.to_string());
                sel.projs.push((e, None));
            }
            if rng.chance(1, 3) { sel.filter = Some(E::Is(true, b(col("i")), b(E::Null))); }
            case["stmt"] = json!(sel.text(Paren::Full));
            case["kind"] = json!("split");
            case["kinds"] = json!(kinds);
        } else {
            case["kind"] = json!("permute");
            case["perm_seed"] = json!(rng.next_u64());
        }
        case
    }

    fn check(&self, case: &J, obs: &mut Obs) -> Verdict {
        let base = match Base::from_case(case) { Ok(b) => b, Err(e) => return Verdict::Inconclusive(e) };
        let p = match base.prepare("o") { Ok(p) => p, Err(e) => return Verdict::Inconclusive(format!("stmt: {}", e.show().chars().take(40).collect::<String>())) };
        let whole = match base.batch(&p, &base.lines) { Ok(w) => w, Err(eng::EngErr::Panic(pn)) => return Verdict::Violated(vec![Violation::new(format!("order|panic:{}", pn.class()), pn.describe())]), Err(_) => {
            // the statement fails on the input as given (some row has no value): then it fails for every order of the lines
            if case["kind"].as_str().unwrap_or("permute") == "permute" {
                let mut rng = Rng::new(case["perm_seed"].as_u64().unwrap_or(1));
                let mut orders: Vec<Vec<String>> = Vec::new();
                let mut rev = base.lines.clone(); rev.reverse(); orders.push(rev);
                for _ in 0..6 { let mut l = base.lines.clone(); rng.shuffle(&mut l); orders.push(l); }
                for l in orders {
                    obs.evals += 1;
                    if let Ok(r) = base.batch(&p, &l) { obs.nontrivial(); return Verdict::Violated(vec![Violation::new("order|permute|error-in-one-order", format!("{:?}: fails in the original order of the lines, another order gives {}", base.sql, show_rows(&r, 3)))]); }
                }
                obs.hit("fails-in-every-order");
            }
            return Verdict::Inconclusive("lower-layer-error".into())
        } };
        let kind = case["kind"].as_str().unwrap_or("permute");
        obs.hit(&format!("kind:{}", kind));
        let interesting = whole.rows.len() >= 2 && base.lines.len() >= whole.rows.len() + 2;
        let mut vs: Vec<Violation> = Vec::new();
        let aggs_in = |sql: &str| -> String { let mut k: Vec<&str> = ["count (", "sum (", "min (", "max (", "avg (", "stddev (", "variance (", "percentile (", "bool_and (", "bool_or ("].iter().filter(|a| sql.contains(*a)).map(|a| a.trim_end_matches(" (")).collect(); k.sort(); k.join("+") };
        if kind == "permute" {
            let mut rng = Rng::new(case["perm_seed"].as_u64().unwrap_or(1));
            let mut perms: Vec<(String, Vec<String>)> = Vec::new();
            let mut rev = base.lines.clone(); rev.reverse(); perms.push(("reversed".into(), rev));
            let mut asc = base.lines.clone(); asc.sort(); perms.push(("sorted-ascending".into(), asc.clone()));
            asc.reverse(); perms.push(("sorted-descending".into(), asc));
            for i in 0..8 { let mut l = base.lines.clone(); rng.shuffle(&mut l); perms.push((format!("random{}", i), l)); }
            for (name, lines) in perms {
                obs.evals += 1;
                if *lines == base.lines { continue; }
                if interesting { obs.sub(crate::rng::mix(&[base.tag, crate::rng::fnv1a(name.as_bytes())])); }
                match base.batch(&p, &lines) {
                    Ok(r) => if !(if case["exact_ints"] == true { identical_rows(&whole, &r) } else { same_rows(&whole, &r, 1e-9) }) {
                        // name the aggregates whose column differs
                        let mut cols: Vec<String> = Vec::new();
                        if r.rows.len() == whole.rows.len() { for (a, b2) in whole.rows.iter().zip(r.rows.iter()) { for (ci, (x, y)) in a.iter().zip(b2.iter()).enumerate() { if !(if case["exact_ints"] == true { x.identical(y) } else { x.same(y, 1e-9) }) { let n = whole.columns.get(ci).cloned().unwrap_or_default(); let n: String = n.chars().filter(|c| !c.is_ascii_digit()).collect(); if !cols.contains(&n) { cols.push(n); } } } } }
                        let what = if r.rows.len() != whole.rows.len() { "group-count".to_string() } else { cols.sort(); format!("columns:{}", cols.join("+")) };
                        let sig = format!("order|permute|{}|{}", aggs_in(&base.sql), what);
                        if !vs.iter().any(|v| v.sig == sig) { vs.push(Violation::new(sig, format!("{:?}: original order {} ; {} order {}", base.sql, show_rows(&whole, 4), name, show_rows(&r, 4)))); }
                    },
                    Err(e) => { let sig = format!("order|permute|{}|error-in-one-order", aggs_in(&base.sql)); if !vs.iter().any(|v| v.sig == sig) { vs.push(Violation::new(sig, format!("{:?} in {} order: {}", base.sql, name, e.show()))); } }
                }
            }
        } else {
            let kinds = strs(case, "kinds");
            for cut in 0..=base.lines.len() {
                obs.evals += 1;
                let (Ok(a), Ok(b2)) = (base.batch(&p, &base.lines[..cut]), base.batch(&p, &base.lines[cut..])) else { vs.push(Violation::new("order|split|part-fails", format!("{:?} cut {}", base.sql, cut))); break; };
                if interesting && cut > 0 && cut < base.lines.len() { obs.sub(crate::rng::mix(&[base.tag, cut as u64])); }
                // key-wise combination
                let mut combined: Vec<Vec<RV>> = a.rows.clone();
                let mut ok = true;
                for rb in &b2.rows {
                    match combined.iter_mut().find(|ra| eq_ref(&ra[0], &rb[0]) == Some(true)) {
                        Some(ra) => { for ci in 1..ra.len() { match combine(kinds.get(ci).map(|s| s.as_str()).unwrap_or(""), &ra[ci], &rb[ci]) { Some(v) => ra[ci] = v, None => ok = false } } }
                        None => combined.push(rb.clone()),
                    }
                }
                if !ok { return Verdict::Inconclusive("not-combinable".into()); }
                combined.sort_by(|x, y| cmp_ref(&x[0], &y[0]).unwrap_or(Ordering::Equal));
                let want = RowsOut { columns: whole.columns.clone(), rows: combined };
                if !same_rows(&whole, &want, 1e-9) {
                    let sig = format!("order|split|{}|differs-from-combination", aggs_in(&base.sql));
                    if !vs.iter().any(|v| v.sig == sig) { vs.push(Violation::new(sig, format!("{:?} cut at {} of {}: whole {} ; combination of the parts {}", base.sql, cut, base.lines.len(), show_rows(&whole, 4), show_rows(&want, 4)))); }
                    break;
                }
            }
        }
        if vs.is_empty() { Verdict::Held } else { Verdict::Violated(vs) }
    }
}
