//! C12 — every line of every input file reaches the query exactly once, in order.

use std::path::PathBuf;
use std::sync::atomic::AtomicBool;
use std::sync::Arc;

use serde_json::{json, Value as J};

use crate::ast::*;
use crate::eng;
use crate::gen::*;
use crate::rng::Rng;
use crate::runner::*;

pub struct C12;

pub const EVERYLINE: &str = "CREATE TABLE everyline ( line = '^(.*)$' , line [ 1 ] => l TEXT ) ;";

/// file content = concatenation of segments: "text" | {"rep": s, "n": k} | {"hex": "c328"}
pub fn materialise(file: &J) -> Vec<u8> {
    let mut out = Vec::new();
    for seg in file.as_array().map(|a| a.as_slice()).unwrap_or(&[]) {
        if let Some(s) = seg.as_str() { out.extend_from_slice(s.as_bytes()); }
        else if let Some(r) = seg.get("rep").and_then(|r| r.as_str()) { let n = seg.get("n").and_then(|n| n.as_u64()).unwrap_or(1); for _ in 0..n { out.extend_from_slice(r.as_bytes()); } }
        else if let Some(h) = seg.get("hex").and_then(|h| h.as_str()) {
            let hs: Vec<char> = h.chars().filter(|c| c.is_ascii_hexdigit()).collect();
            for p in hs.chunks(2) { if p.len() == 2 { out.push(u8::from_str_radix(&p.iter().collect::<String>(), 16).unwrap_or(0)); } }
        }
    }
    out
}

/// the harness' own line splitter: lines end with LF or CRLF; a final line may be unterminated
pub fn split_lines(bytes: &[u8]) -> Vec<Vec<u8>> {
    let mut out = Vec::new();
    let mut cur: Vec<u8> = Vec::new();
    for &b in bytes {
        if b == b'\n' { if cur.last() == Some(&b'\r') { cur.pop(); } out.push(std::mem::take(&mut cur)); } else { cur.push(b); }
    }
    if !cur.is_empty() { out.push(cur); }
    out
}

pub fn write_files(tag: u64, prefix: &str, files: &[Vec<u8>]) -> Vec<PathBuf> {
    files.iter().enumerate().map(|(i, f)| eng::write_scratch(&format!("{}-{}-{}.log", prefix, tag, i), f)).collect()
}

pub fn remove_files(paths: &[PathBuf]) { for p in paths { let _ = std::fs::remove_file(p); } }

fn random_line(rng: &mut Rng, tier: Tier) -> J {
    match rng.below(14) {
        0 => json!(""),
        1 => json!({"rep": "x", "n": if tier == Tier::Thorough { *rng.pick(&[8191u64, 8192, 8193, 65536, 1 << 20]) } else { *rng.pick(&[8191u64, 8192, 8193, 20000]) }}),
        2 => json!("\u{e9}\u{1F600} unicode \u{20ac}"),
        3 => json!(" leading and trailing blanks  "),
        4 => json!("tab\tseparated\tfields"),
        5 => json!("carriage\rinside"),
        6 => json!(*rng.pick(&["\u{feff}byte-order mark first", "\u{feff}", "#comment-like", ";", "\u{0}nul first", "trailing blank ", "trailing tab\t", "\\", "ends with backslash\\", "content ends with cr\r", "\r", "\r\r", "cr cr\r\r"])),
        _ => { let n = rng.below(30); json!((0..n).map(|_| *rng.pick(&['a', 'b', ' ', '1', '=', '{', '"'])).collect::<String>()) }
    }
}

fn random_file(rng: &mut Rng, tier: Tier, force_terminated: bool, max_lines: usize) -> Vec<J> {
    let n = rng.below(max_lines + 1);
    let mut segs = Vec::new();
    for i in 0..n {
        segs.push(random_line(rng, tier));
        let last = i + 1 == n;
        if last && !force_terminated && rng.chance(1, 3) { break; }
        segs.push(json!(if rng.chance(1, 5) { "\r\n" } else { "\n" }));
    }
    segs
}

fn parse_json_records(printed: &[String], key: &str) -> Vec<Vec<u8>> {
    printed.iter().filter(|l| !l.is_empty()).map(|l| serde_json::from_str::<J>(l).ok().and_then(|j| j.get(key).and_then(|v| v.as_str().map(|s| s.as_bytes().to_vec()))).unwrap_or_else(|| format!("<unparsable:{}>", l).into_bytes())).collect()
}

impl Monitor for C12 {
    fn id(&self) -> &'static str { "C12" }
    fn rule(&self) -> &'static str {
        "kinds: everyline (SELECT l over a table admitting every line, 1-5 files of LF/CRLF/empty/unterminated/long lines, records and total_lines vs the harness' own splitter), concat (SELECT / aggregate / join statements over [f1..fk] vs the concatenation: records and total_lines equal), badutf8 (one or two invalid byte sequences - one case in four: 15-600 invalid lines, alone or alternating with well-formed ones - in the main or joined file: later lines still delivered or an error reported). Non-trivial = k >= 2 files or a CRLF / unterminated / empty line present; distinct by case hash"
    }
    fn assumptions(&self) -> Vec<String> { vec!["line = bytes up to LF, an immediately preceding CR belongs to the line end".into()] }
    fn sizes(&self, tier: Tier) -> Sizes { match tier { Tier::Quick => Sizes { cases: 6_000, min_nontrivial: 1_000 }, Tier::Thorough => Sizes { cases: 150_000, min_nontrivial: 20_000 } } }

    fn exhaustive_note(&self) -> Option<String> { Some("two cases with 300 and 600 input files in every run (kind=everyline)".into()) }
    fn enumerate(&self, _tier: Tier, emit: &mut dyn FnMut(J)) {
        for n in [300usize, 600] { let files: Vec<J> = (0..n).map(|i| json!([format!("file {} line 1", i), "\n", format!("file {} line 2", i), if i % 7 == 0 { "" } else { "\n" }])).collect(); emit(json!({"kind": "everyline", "files": files})); }
    }

    fn generate(&self, rng: &mut Rng, tier: Tier) -> J {
        match rng.below(10) {
            0..=3 => {
                let k = 1 + rng.below(5);
                let files: Vec<J> = (0..k).map(|_| J::Array(random_file(rng, tier, false, 12))).collect();
                json!({"kind": "everyline", "files": files})
            }
            4..=7 => {
                let t = std_table(rng, "t", true, false);
                let dc = DataCfg::random(rng, t.schema.cols.len(), false);
                let n = 2 + rng.below(30);
                let lines = std_lines(rng, &t, n, &dc);
                let k = 2 + rng.below(4);
                let mut cutpoints: Vec<usize> = (0..k - 1).map(|_| rng.below(n + 1)).collect();
                cutpoints.sort();
                let (stmt, joined) = match rng.below(4) {
                    0 => (gen_aggregate(rng, &t.schema, &AggCfg::default()), None),
                    1 => {
                        let mut s = gen_select(rng, &t.schema, &StmtCfg { expr: ExprCfg { ill_typed: 0, ..Default::default() }, ..Default::default() });
                        // (the joined file may hold no row at all: empty, or nothing but foreign lines)
                        let un = rng.below(9);
                        let mut ulines = std_lines(rng, &t, un, &dc);
                        if un == 0 && rng.chance(1, 2) { ulines = vec!["garbage".into(), "".into(), "{}".into()]; }
                        s.join = Some(Join { outer: rng.chance(1, 2), table: "u".into(), file: "@JOINED@".into(), left: ("t".into(), "k".into()), right: ("u".into(), "k".into()) });
                        (s, Some(ulines))
                    }
                    _ => (gen_select(rng, &t.schema, &StmtCfg { expr: ExprCfg { ill_typed: 0, ..Default::default() }, ..Default::default() }), None),
                };
                let mut u = t.spec.clone(); u.name = "u".into();
                json!({"kind": "concat", "tables": format!("{} {}", t.spec.text(), u.text()), "stmt": stmt.text(Paren::Full), "lines": lines, "cuts": cutpoints, "joined": joined})
            }
            _ => {
                // the invalid line's index ranges over 0..=70 (loops that treat every n-th line differently are reached);
                // half of the cases use plain filler lines so that the index is uniform
                let before = if rng.chance(1, 2) { random_file(rng, tier, true, 4) } else { vec![json!({"rep": "filler\n", "n": rng.below(71) as u64})] };
                let after_n = 1 + rng.below(4);
                let after: Vec<J> = (0..after_n).flat_map(|i| vec![json!(format!("after{}", i)), json!("\n")]).collect();
                let bad = *rng.pick(&["ff", "c3", "c328", "e282", "f09f98", "80", "fe", "edA080"]);
                let mut file = before.clone();
                if rng.chance(1, 2) { file.push(json!("pre")); }
                file.push(json!({"hex": bad}));
                if rng.chance(1, 2) { file.push(json!("post")); }
                file.push(json!("\n"));
                if rng.chance(1, 3) {
                    // a second invalid line further on
                    file.push(json!({"rep": "filler\n", "n": rng.below(25) as u64}));
                    file.push(json!({"hex": *rng.pick(&["ff", "c328", "80"])}));
                    file.push(json!("\n"));
                }
                if rng.chance(1, 4) {
                    // many invalid lines (a reader that gives a file up as "binary" after some number of them), alone or between
                    // well-formed lines: counts around powers of two and well beyond
                    let m = *rng.pick(&[15usize, 16, 17, 31, 32, 33, 63, 64, 65, 66, 127, 128, 129, 255, 257, 600]);
                    let alternate = rng.chance(1, 2);
                    for i in 0..m {
                        file.push(json!({"hex": *rng.pick(&["ff", "c328", "80", "fe"])}));
                        file.push(json!("\n"));
                        if alternate { file.push(json!(format!("mid{}\n", i))); }
                    }
                }
                file.extend(after.clone());
                json!({"kind": "badutf8", "file": file, "where": *rng.pick(&["main", "main", "joined"]), "after": after_n, "before": before})
            }
        }
    }

    fn check(&self, case: &J, obs: &mut Obs) -> Verdict {
        let kind = case["kind"].as_str().unwrap_or("");
        let tag = case_hash(case);
        obs.hit(&format!("kind:{}", kind));
        let running = || Arc::new(AtomicBool::new(true));
        match kind {
            "everyline" => {
                let files: Vec<Vec<u8>> = case["files"].as_array().map(|a| a.iter().map(materialise).collect()).unwrap_or_default();
                let tables = match eng::tables_from(EVERYLINE) { Ok(t) => t, Err(e) => return Verdict::Inconclusive(format!("table: {}", e.show())) };
                let stmt = match eng::parse("SELECT l FROM everyline") { Ok(s) => s, Err(e) => return Verdict::Inconclusive(format!("stmt: {}", e.show())) };
                let paths = write_files(tag, "c12", &files);
                let out = eng::run_executor(&tables, &stmt, &paths, "json", false, running(), None);
                remove_files(&paths);
                let want: Vec<Vec<u8>> = files.iter().flat_map(|f| split_lines(f)).collect();
                let nt = files.len() >= 2 || files.iter().any(|f| f.windows(2).any(|w| w == b"\r\n") || f.windows(2).any(|w| w == b"\n\n") || (!f.is_empty() && *f.last().unwrap() != b'\n'));
                if nt { obs.nontrivial(); }
                if files.iter().any(|f| split_lines(f).iter().any(|l| l.len() > 8192)) { obs.hit("line>8KiB"); }
                let feat = format!("files:{}", files.len()); obs.hit(&feat);
                let mut vs = Vec::new();
                if let Err(e) = &out.result { vs.push(Violation::new(if e.is_panic() { format!("lines|{}", e.show().split(':').next().unwrap_or("panic")) } else { "lines|unexpected-error".into() }, e.show())); }
                let got = parse_json_records(&out.printed, "l");
                if got != want {
                    let kind = if got.len() < want.len() { "lines-missing" } else if got.len() > want.len() { "lines-extra" } else { "line-content" };
                    let at = got.iter().zip(want.iter()).position(|(a, b)| a != b).unwrap_or(got.len().min(want.len()));
                    vs.push(Violation::new(format!("lines|everyline|{}", kind), format!("{} files: got {} records, want {}; first difference at {}: got {:?} want {:?}", files.len(), got.len(), want.len(), at, got.get(at).map(|l| String::from_utf8_lossy(&l[..l.len().min(40)]).into_owned()), want.get(at).map(|l| String::from_utf8_lossy(&l[..l.len().min(40)]).into_owned()))));
                }
                if out.total_lines != want.len() as u64 { vs.push(Violation::new("lines|everyline|total_lines", format!("total_lines {} but the files hold {} lines", out.total_lines, want.len()))); }
                if vs.is_empty() { Verdict::Held } else { Verdict::Violated(vs) }
            }
            "concat" => {
                let lines: Vec<String> = case["lines"].as_array().map(|a| a.iter().filter_map(|x| x.as_str().map(|s| s.to_owned())).collect()).unwrap_or_default();
                let cuts: Vec<usize> = case["cuts"].as_array().map(|a| a.iter().filter_map(|x| x.as_u64().map(|v| v as usize)).collect()).unwrap_or_default();
                let tables = match eng::tables_from(case["tables"].as_str().unwrap_or("")) { Ok(t) => t, Err(e) => return Verdict::Inconclusive(format!("table: {}", e.show())) };
                let joined_path = case["joined"].as_array().map(|u| {
                    let text: String = u.iter().filter_map(|x| x.as_str()).map(|s| format!("{}\n", s)).collect();
                    eng::write_scratch(&format!("c12-joined-{}.log", tag), text.as_bytes())
                });
                let sql = case["stmt"].as_str().unwrap_or("").replace("@JOINED@", &joined_path.as_ref().map(|p| p.display().to_string()).unwrap_or_default());
                let stmt = match eng::parse(&sql) { Ok(s) => s, Err(e) => { if let Some(p) = &joined_path { let _ = std::fs::remove_file(p); } return Verdict::Inconclusive(format!("stmt: {}", e.show().chars().take(60).collect::<String>())) } };
                let mut parts: Vec<Vec<u8>> = Vec::new();
                let mut prev = 0;
                for &c in cuts.iter().chain(std::iter::once(&lines.len())) {
                    let c = c.min(lines.len()).max(prev);
                    parts.push(lines[prev..c].iter().map(|l| format!("{}\n", l)).collect::<String>().into_bytes());
                    prev = c;
                }
                let whole: Vec<u8> = parts.concat();
                let split_paths = write_files(tag, "c12s", &parts);
                let whole_paths = write_files(tag, "c12w", &[whole]);
                let a = eng::run_executor(&tables, &stmt, &split_paths, "json", true, running(), None);
                let b = eng::run_executor(&tables, &stmt, &whole_paths, "json", true, running(), None);
                remove_files(&split_paths); remove_files(&whole_paths);
                if let Some(p) = &joined_path { let _ = std::fs::remove_file(p); }
                let feat = if sql.contains("JOIN") { "stmt:join" } else if sql.contains("GROUP BY") || sql.contains("count (") || sql.contains("sum (") { "stmt:aggregate" } else { "stmt:select" };
                obs.hit(feat);
                if a.result.is_err() && b.result.is_err() { return Verdict::Inconclusive("both-error".into()); }
                obs.nontrivial();
                let mut vs = Vec::new();
                let same_err = a.result.is_ok() == b.result.is_ok();
                if !same_err { vs.push(Violation::new(format!("concat|{}|error-differs", feat), format!("split: {:?} whole: {:?}", a.result.as_ref().err().map(|e| e.show()), b.result.as_ref().err().map(|e| e.show())))); }
                else if a.printed != b.printed { vs.push(Violation::new(format!("concat|{}|records-differ", feat), format!("{} parts; split run printed {} records, whole run {}: {:?} vs {:?}", parts.len(), a.printed.len(), b.printed.len(), a.printed.iter().take(3).collect::<Vec<_>>(), b.printed.iter().take(3).collect::<Vec<_>>()))); }
                if a.result.is_ok() && b.result.is_ok() && a.total_lines != b.total_lines { vs.push(Violation::new(format!("concat|{}|total_lines", feat), format!("split {} whole {}", a.total_lines, b.total_lines))); }
                // without LIMIT every line of every file is read, whatever the statement and the joined file are
                if !sql.contains(" LIMIT ") { for (what, r) in [("split", &a), ("whole", &b)] { if r.result.is_ok() && r.total_lines != lines.len() as u64 { vs.push(Violation::new(format!("concat|{}|lines-not-read", feat), format!("{} run: total_lines {} of {} lines ({:?})", what, r.total_lines, lines.len(), sql))); break; } } }
                if vs.is_empty() { Verdict::Held } else { Verdict::Violated(vs) }
            }
            "badutf8" => {
                let file = materialise(&case["file"]);
                let after = case["after"].as_u64().unwrap_or(0) as usize;
                let wher = case["where"].as_str().unwrap_or("main");
                let before_n = split_lines(&materialise(&case["before"])).len();
                obs.nontrivial();
                obs.hit(&format!("badutf8:{}", wher));
                let expect_after: Vec<Vec<u8>> = (0..after).map(|i| format!("after{}", i).into_bytes()).collect();
                if wher == "main" {
                    let tables = match eng::tables_from(EVERYLINE) { Ok(t) => t, Err(e) => return Verdict::Inconclusive(format!("table: {}", e.show())) };
                    let stmt = match eng::parse("SELECT l FROM everyline") { Ok(s) => s, Err(e) => return Verdict::Inconclusive(format!("stmt: {}", e.show())) };
                    let second = b"second-file-line\n".to_vec();
                    let paths = write_files(tag, "c12b", &[file, second]);
                    let out = eng::run_executor(&tables, &stmt, &paths, "json", false, running(), None);
                    remove_files(&paths);
                    match &out.result {
                        Err(e) if e.is_panic() => Verdict::Violated(vec![Violation::new("badutf8|main|panic", e.show())]),
                        Err(_) => Verdict::Held, // an error is reported: allowed
                        Ok(()) => {
                            let got = parse_json_records(&out.printed, "l");
                            let tail: Vec<Vec<u8>> = got.iter().filter(|l| l.starts_with(b"after")).cloned().collect();
                            let second_seen = got.iter().any(|l| l == b"second-file-line");
                            let before_ok = got.len() >= before_n;
                            if tail == expect_after && second_seen && before_ok { Verdict::Held }
                            else { Verdict::Violated(vec![Violation::new("badutf8|main|later-lines-dropped-silently", format!("no error reported, but of {} well-formed lines after the invalid one {} were delivered (second file seen: {})", after, tail.len(), second_seen))]) }
                        }
                    }
                } else {
                    // the invalid line sits in the joined file: rows "afterN" must still find their partner, or an error must be reported
                    let defs = format!("{} CREATE TABLE other ( line = '^(.*)$' , line [ 1 ] => l TEXT ) ;", EVERYLINE);
                    let tables = match eng::tables_from(&defs) { Ok(t) => t, Err(e) => return Verdict::Inconclusive(format!("table: {}", e.show())) };
                    let jpath = eng::write_scratch(&format!("c12bj-{}.log", tag), &file);
                    let main: Vec<u8> = (0..after).map(|i| format!("after{}\n", i)).collect::<String>().into_bytes();
                    let sql = format!("SELECT everyline.l AS l FROM everyline INNER JOIN other :: '{}' ON everyline.l = other.l", jpath.display());
                    let stmt = match eng::parse(&sql) { Ok(s) => s, Err(e) => return Verdict::Inconclusive(format!("stmt: {}", e.show())) };
                    let paths = write_files(tag, "c12bm", &[main]);
                    let out = eng::run_executor(&tables, &stmt, &paths, "json", false, running(), None);
                    remove_files(&paths); let _ = std::fs::remove_file(&jpath);
                    match &out.result {
                        Err(e) if e.is_panic() => Verdict::Violated(vec![Violation::new("badutf8|joined|panic", e.show())]),
                        Err(_) => Verdict::Held,
                        Ok(()) => {
                            let got = parse_json_records(&out.printed, "l");
                            if got == expect_after { Verdict::Held }
                            else { Verdict::Violated(vec![Violation::new("badutf8|joined|later-lines-dropped-silently", format!("no error reported, but only {} of {} rows found their partner in the joined file after its invalid line", got.len(), after))]) }
                        }
                    }
                }
            }
            _ => Verdict::Inconclusive("malformed-case".into()),
        }
    }
}
