//! Structural conversion of sqlgrep's public `model::ExpressionTree` into the harness AST, so that what the
//! parser understood can be compared with what the generator meant (C13) and so that the expression monitor
//! can walk the engine's own tree (C03).

use sqlgrep::model::{ArithmeticOperator, BooleanOperator, CompareOperator, ExpressionTree, Function, NullableCompareOperator, UnaryArithmeticOperator, Value};

use crate::ast::*;
use crate::val::Ty;

pub fn function_name(f: &Function) -> &'static str {
    match f {
        Function::Greatest => "greatest", Function::Least => "least", Function::Abs => "abs", Function::Sqrt => "sqrt", Function::Pow => "pow",
        Function::StringLength => "length", Function::StringToUpper => "upper", Function::StringToLower => "lower", Function::RegexMatches => "regexp_matches",
        Function::CreateArray => "create_array", Function::ArrayUnique => "array_unique", Function::ArrayLength => "array_length", Function::ArrayCat => "array_cat",
        Function::ArrayAppend => "array_append", Function::ArrayPrepend => "array_prepend", Function::TimestampNow => "now", Function::MakeTimestamp => "make_timestamp",
        Function::TimestampExtractEpoch => "extract:epoch", Function::TimestampExtractYear => "extract:year", Function::TimestampExtractMonth => "extract:month",
        Function::TimestampExtractDay => "extract:day", Function::TimestampExtractHour => "extract:hour", Function::TimestampExtractMinute => "extract:minute",
        Function::TimestampExtractSecond => "extract:second", Function::TruncateTimestamp => "date_trunc",
    }
}

pub fn compare_name(o: &CompareOperator) -> &'static str {
    match o { CompareOperator::Equal => "=", CompareOperator::NotEqual => "!=", CompareOperator::GreaterThan => ">", CompareOperator::GreaterThanOrEqual => ">=", CompareOperator::LessThan => "<", CompareOperator::LessThanOrEqual => "<=" }
}

pub fn arith_name(o: &ArithmeticOperator) -> &'static str {
    match o { ArithmeticOperator::Add => "+", ArithmeticOperator::Subtract => "-", ArithmeticOperator::Multiply => "*", ArithmeticOperator::Divide => "/" }
}

/// `None` for node kinds that cannot come out of a plain (non-aggregate) expression text
pub fn from_engine(t: &ExpressionTree) -> Option<E> {
    Some(match t {
        ExpressionTree::Value(v) => match v {
            Value::Null => E::Null,
            Value::Int(i) if *i >= 0 => E::Int(*i as u64),
            Value::Int(_) => return None,
            Value::Float(f) => E::Real(f.0),
            Value::Bool(x) => E::Bool(*x),
            Value::String(s) => E::Str(s.clone()),
            _ => return None,
        },
        ExpressionTree::ColumnAccess(n) => E::Col(n.clone()),
        ExpressionTree::ScopedColumnAccess(_, _) => return None,
        ExpressionTree::Wildcard => E::Star,
        ExpressionTree::Compare { operator, left, right } => E::Bin(compare_name(operator).into(), b(from_engine(left)?), b(from_engine(right)?)),
        ExpressionTree::NullableCompare { operator, left, right } => E::Is(*operator == NullableCompareOperator::NotEqual, b(from_engine(left)?), b(from_engine(right)?)),
        ExpressionTree::Arithmetic { operator, left, right } => E::Bin(arith_name(operator).into(), b(from_engine(left)?), b(from_engine(right)?)),
        ExpressionTree::BooleanOperation { operator, left, right } => E::Bin(match operator { BooleanOperator::And => "AND", BooleanOperator::Or => "OR" }.into(), b(from_engine(left)?), b(from_engine(right)?)),
        ExpressionTree::UnaryArithmetic { operator, operand } => match operator { UnaryArithmeticOperator::Negative => E::Neg(b(from_engine(operand)?)), UnaryArithmeticOperator::Invert => E::Not(b(from_engine(operand)?)) },
        ExpressionTree::In { is_not, operand, values } => E::In(*is_not, b(from_engine(operand)?), values.iter().map(from_engine).collect::<Option<Vec<_>>>()?),
        ExpressionTree::FunctionCall { function, arguments } => {
            let args = arguments.iter().map(from_engine).collect::<Option<Vec<_>>>()?;
            let name = function_name(function);
            if name == "create_array" { E::ArrayLit(args) }
            else if let Some(part) = name.strip_prefix("extract:") { if args.len() != 1 { return None; } E::Extract(part.to_owned(), b(args.into_iter().next()?)) }
            else { E::Call(name.to_owned(), args) }
        }
        ExpressionTree::ArrayElementAccess { array, index } => E::Index(b(from_engine(array)?), b(from_engine(index)?)),
        ExpressionTree::TypeConversion { operand, convert_to_type } => E::Cast(b(from_engine(operand)?), Ty::from_engine(convert_to_type)),
        ExpressionTree::Case { clauses, else_clause } => E::Case(clauses.iter().map(|(c, r)| Some((from_engine(c)?, from_engine(r)?))).collect::<Option<Vec<_>>>()?, b(from_engine(else_clause)?)),
        ExpressionTree::Aggregate(_, _) => return None,
    })
}

/// canonical form for comparison: the README's `regex_matches` and the code's `regexp_matches` are one function,
/// EXTRACT parts and function names are lower case
pub fn canon(e: &E) -> E {
    match e {
        E::Call(n, a) => { let n = n.to_lowercase(); E::Call(if n == "regex_matches" { "regexp_matches".into() } else { n }, a.iter().map(canon).collect()) }
        E::Extract(p, x) => E::Extract(p.to_lowercase(), b(canon(x))),
        E::Neg(x) => E::Neg(b(canon(x))),
        E::Not(x) => E::Not(b(canon(x))),
        E::Bin(o, l, r) => E::Bin(o.clone(), b(canon(l)), b(canon(r))),
        E::Is(n, l, r) => E::Is(*n, b(canon(l)), b(canon(r))),
        E::In(n, x, vs) => E::In(*n, b(canon(x)), vs.iter().map(canon).collect()),
        E::Agg(n, d, a) => E::Agg(n.to_lowercase(), *d, a.iter().map(canon).collect()),
        E::ArrayLit(a) => E::ArrayLit(a.iter().map(canon).collect()),
        E::Index(a, i) => E::Index(b(canon(a)), b(canon(i))),
        E::Cast(x, t) => E::Cast(b(canon(x)), t.clone()),
        E::Case(cs, el) => E::Case(cs.iter().map(|(c, r)| (canon(c), canon(r))).collect(), b(canon(el))),
        other => other.clone(),
    }
}

/// operator class of a node, used in C13 signatures
pub fn op_class(e: &E) -> &'static str {
    match e {
        E::Bin(o, _, _) => match o.as_str() { "OR" => "OR", "AND" => "AND", "=" | "!=" => "eq", "<" | "<=" | ">" | ">=" => "rel", "+" | "-" => "add", "*" | "/" => "mul", _ => "?" },
        E::Not(_) => "NOT", E::Neg(_) => "neg", E::Is(..) => "IS", E::In(..) => "IN", E::Cast(..) => "cast", E::Index(..) => "subscript",
        E::Call(..) => "call", E::Case(..) => "case", E::ArrayLit(_) => "array", E::Extract(..) => "extract",
        _ => "leaf",
    }
}
