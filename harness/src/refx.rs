//! Reference extraction (DESIGN §7 C01/C02, Appendix A.1-A.2): group -> column mapping, typed literals,
//! modifiers, defaults, NOT NULL, arrays and multi-group timestamps, JSON path walking over the harness' own
//! document trees. Trusts only the `regex` crate for *which text a group captured*.

use std::collections::HashMap;

use regex::Regex;
use serde_json::{json, Value as J};

use crate::ast::*;
use crate::val::*;

#[derive(Clone, Debug)]
pub struct Accept { pub vals: Vec<RV>, pub situation: &'static str }

impl Accept {
    pub fn one(v: RV, situation: &'static str) -> Accept { Accept { vals: vec![v], situation } }
    pub fn of(vals: Vec<RV>, situation: &'static str) -> Accept {
        let mut out: Vec<RV> = Vec::new();
        for v in vals { if !out.iter().any(|o| o.same(&v, 0.0)) { out.push(v); } }
        Accept { vals: out, situation }
    }
    pub fn admits(&self, v: &RV) -> bool { self.vals.iter().any(|a| a.same(v, 0.0)) }
    pub fn may_be_null(&self) -> bool { self.vals.iter().any(|a| a.is_null()) }
    pub fn show(&self) -> String { format!("{{{}}}", self.vals.iter().map(|v| v.show()).collect::<Vec<_>>().join(" | ")) }
}

pub fn default_of(col: &ColSpec) -> RV {
    match col.default_expr() {
        Some(e) => match e { E::Int(i) => RV::Int(*i as i64), E::Real(x) => RV::Real(*x), E::Str(s) => RV::Text(s.clone()), E::Bool(b) => RV::Bool(*b), _ => RV::Null },
        None => RV::Null,
    }
}

pub enum PatResult { NoMatch, Caps(Vec<Option<String>>), Split(Vec<String>) }

/// runs every pattern of the table once on the line (captures = leftmost match; split = whole line at index 0 then the fields)
pub fn eval_patterns(spec: &TableSpec, line: &str) -> Option<HashMap<String, PatResult>> {
    let mut out = HashMap::new();
    let mut pats: Vec<(String, String, bool)> = spec.patterns.iter().map(|p| (p.name.clone(), p.regex.clone(), p.split)).collect();
    // inline patterns are numbered in definition order among all patterns
    let mut n = spec.patterns.len();
    for c in &spec.cols { if let Src::Inline(r) = &c.src { pats.push((format!("_pattern{}", n), r.clone(), false)); n += 1; } }
    for (name, re, split) in pats {
        let re = Regex::new(&re).ok()?;
        let r = if split {
            let mut fields = vec![line.to_owned()];
            let mut last = 0;
            for m in re.find_iter(line) { fields.push(line[last..m.start()].to_owned()); last = m.end(); }
            fields.push(line[last..].to_owned());
            PatResult::Split(fields)
        } else {
            match re.captures(line) { None => PatResult::NoMatch, Some(c) => PatResult::Caps((0..c.len()).map(|i| c.get(i).map(|m| m.as_str().to_owned())).collect()) }
        };
        // a name may be defined more than once: the last definition that applies to the line is the one the columns see
        let applies = !matches!(r, PatResult::NoMatch);
        if applies || !out.contains_key(&name) { out.insert(name, r); }
    }
    Some(out)
}

/// inline pattern names in the order the definition lists them (CREATE TABLE numbers them after the named patterns so far)
pub fn inline_names(spec: &TableSpec) -> HashMap<usize, String> {
    let mut n = spec.patterns.len();
    let mut out = HashMap::new();
    for (ci, c) in spec.cols.iter().enumerate() { if let Src::Inline(_) = &c.src { out.insert(ci, format!("_pattern{}", n)); n += 1; } }
    out
}

enum Cap { PatternUnmatched, GroupAbsent, Text(String) }

fn lookup(ctx: &HashMap<String, PatResult>, pat: &str, idx: u64) -> Cap {
    match ctx.get(pat) {
        None | Some(PatResult::NoMatch) => Cap::PatternUnmatched,
        Some(PatResult::Caps(gs)) => match gs.get(idx as usize) { Some(Some(t)) => Cap::Text(t.clone()), _ => Cap::GroupAbsent },
        Some(PatResult::Split(fs)) => match fs.get(idx as usize) { Some(t) => Cap::Text(t.clone()), None => Cap::GroupAbsent },
    }
}

/// text -> value of a scalar type (A.1); `None` = the type has no text literals (arrays)
pub fn literal_accept(ty: &Ty, text: &str) -> Accept {
    match ty {
        Ty::Int => Accept::one(parse_int_lit(text).map(RV::Int).unwrap_or(RV::Null), "literal"),
        Ty::Real => Accept::one(parse_real_lit(text).map(RV::Real).unwrap_or(RV::Null), "literal"),
        Ty::Bool => Accept::one(parse_bool_lit(text).map(RV::Bool).unwrap_or(RV::Null), "literal"),
        Ty::Text => Accept::one(RV::Text(text.to_owned()), "literal"),
        Ty::Ts => match parse_ts_lit(text) { TsLit::Exact(t) => Accept::one(RV::Ts(t), "literal"), TsLit::No => Accept::one(RV::Null, "not-a-literal"), TsLit::Maybe(Some(t)) => Accept::of(vec![RV::Null, RV::Ts(t)], "lenient-literal"), TsLit::Maybe(None) => Accept::one(RV::Null, "part-out-of-range") },
        Ty::Iv => match parse_iv_lit(text) {
            IvLit::Exact(t) => Accept::one(RV::Iv(t), "literal"), IvLit::No => Accept::one(RV::Null, "not-a-literal"), IvLit::OutOfRange => Accept::one(RV::Null, "part-out-of-range"),
            IvLit::Huge => Accept::of(vec![RV::Null, RV::Iv(i64::MAX), RV::Iv(i64::MIN), RV::Iv(i64::MAX / 1000 * 1000), RV::Iv(i64::MIN / 1000 * 1000)], "beyond-harness-domain"),
        },
        Ty::Arr(_) => Accept::one(RV::Null, "array-has-no-literal"),
    }
}

fn trim_variants(a: Accept) -> Accept {
    let mut vals = Vec::new();
    for v in &a.vals {
        // "whitespace" = the Unicode White_Space property (what `str::trim` and the regex class `\s` mean by it): blanks, tabs,
        // line terminators, no-break and ideographic spaces alike
        match v { RV::Text(s) => { vals.push(RV::Text(s.trim().to_owned())); } other => vals.push(other.clone()) }
    }
    Accept::of(vals, a.situation)
}

fn single_ref(ty: &Ty, ctx: &HashMap<String, PatResult>, pat: &str, idx: u64, default: RV) -> Accept {
    match lookup(ctx, pat, idx) {
        Cap::PatternUnmatched => if *ty == Ty::Bool { Accept::of(vec![default, RV::Bool(false)], "pattern-unmatched") } else { Accept::one(default, "pattern-unmatched") },
        Cap::GroupAbsent => if *ty == Ty::Bool { Accept::one(RV::Bool(false), "group-absent") } else { Accept::one(default, "group-absent") },
        Cap::Text(t) => if *ty == Ty::Bool { Accept::one(RV::Bool(true), "group-present") } else { literal_accept(ty, &t) },
    }
}

const MONTHS: &[(&str, i64)] = &[("jan", 1), ("feb", 2), ("mar", 3), ("apr", 4), ("may", 5), ("jun", 6), ("june", 6), ("jul", 7), ("july", 7), ("aug", 8), ("sep", 9), ("sept", 9), ("oct", 10), ("nov", 11), ("dec", 12)];

fn timestamp_from_groups(col: &ColSpec, refs: &[(String, u64)], ctx: &HashMap<String, PatResult>) -> Accept {
    // an eighth, ninth ... listed group has no position of a timestamp to fill: what such a group does (ignored, or no
    // value when it is absent / not a number) is not stated; the first seven are judged as always, with "no value" also accepted
    if refs.len() > 7 {
        let mut a = timestamp_from_groups(col, &refs[..7], ctx);
        let d = default_of(col);
        if !a.vals.iter().any(|o| o.same(&RV::Null, 0.0)) { a.vals.push(RV::Null); }
        if !a.vals.iter().any(|o| o.same(&d, 0.0)) { a.vals.push(d); }
        a.situation = "more-than-seven-groups";
        return a;
    }
    let default = default_of(col);
    let micro = col.micro();
    // year, month, day, hour, minute, second, fraction
    let mut parts: [i64; 7] = [0, 1, 1, 0, 0, 0, 0];
    let mut month_absent = false;
    for (i, (p, idx)) in refs.iter().enumerate().take(7) {
        match lookup(ctx, p, *idx) {
            Cap::Text(t) => match parse_int_lit(&t) {
                Some(v) => parts[i] = v,
                None => {
                    if i == 1 { match MONTHS.iter().find(|(n, _)| *n == t.to_lowercase()) { Some((_, m)) => parts[1] = *m, None => return Accept::of(vec![RV::Null, default], "month-not-a-name") } }
                    else { return Accept::of(vec![RV::Null, default], "part-not-an-int"); }
                }
            },
            _ => { if i == 1 { month_absent = true; } else { return Accept::of(vec![RV::Null, default], "part-absent"); } }
        }
    }
    let us = if micro { Some(parts[6]) } else { parts[6].checked_mul(1000) };
    let frac_ok = if micro { (0..1_000_000).contains(&parts[6]) } else { (0..1000).contains(&parts[6]) };
    let ts = if frac_ok { us.and_then(|us| ts_from_parts(parts[0], parts[1], parts[2], parts[3], parts[4], parts[5], us)) } else { None };
    // a fraction of one to two seconds is the leap-second notation of some libraries: no value, or the instant it denotes
    if !frac_ok { if let Some(us) = us { if (1_000_000..2_000_000).contains(&us) { if let Some(t) = ts_from_parts(parts[0], parts[1], parts[2], parts[3], parts[4], parts[5], 0) { return Accept::of(vec![RV::Null, default, RV::Ts(t + us)], "fraction-over-one-second"); } } } }
    match ts {
        None => Accept::of(vec![RV::Null, default], "part-out-of-range"),
        // years near the end of the calendar a date library supports may or may not be representable
        Some(t) if parts[0].abs() > 200_000 => Accept::of(vec![RV::Null, default, RV::Ts(t)], "year-near-calendar-limit"),
        Some(t) => if month_absent { Accept::of(vec![RV::Null, default, RV::Ts(t)], "month-group-absent") } else { Accept::one(RV::Ts(t), "assembled") },
    }
}

pub fn expect_regex_column(spec: &TableSpec, ci: usize, ctx: &HashMap<String, PatResult>) -> Accept {
    let col = &spec.cols[ci];
    let default = default_of(col);
    let a = match &col.src {
        Src::Group(p, i) => single_ref(&col.ty, ctx, p, *i, default),
        Src::Inline(_) => { let names = inline_names(spec); single_ref(&col.ty, ctx, &names[&ci], 1, default) }
        Src::Multi(refs) => match &col.ty {
            Ty::Arr(elem) => {
                let mut any_part = false;
                let mut combos: Vec<Vec<RV>> = vec![vec![]];
                for (p, i) in refs {
                    if matches!(lookup(ctx, p, *i), Cap::Text(_)) { any_part = true; }
                    let a = single_ref(elem, ctx, p, *i, RV::Null);
                    let mut next = Vec::new();
                    for c in &combos { for v in &a.vals { let mut n = c.clone(); n.push(v.clone()); next.push(n); } }
                    combos = next;
                    if combos.len() > 64 { combos.truncate(64); }
                }
                let mut vals = Vec::new();
                for c in combos {
                    if c.iter().all(|v| v.is_null()) { vals.push(default.clone()); if any_part { vals.push(RV::Arr((**elem).clone(), c)); } }
                    else { vals.push(RV::Arr((**elem).clone(), c)); }
                }
                Accept::of(vals, if any_part { "array-assembled" } else { "array-no-group" })
            }
            Ty::Ts => timestamp_from_groups(col, refs, ctx),
            _ => Accept::one(default, "multi-on-scalar"),
        },
        Src::Json(_) => Accept::one(RV::Null, "json"),
    };
    if col.trim() { trim_variants(a) } else { a }
}

// ---------------------------------------------------------------------------------------------
// JSON documents the harness owns

#[derive(Clone, Debug, PartialEq)]
pub enum JV { Null, Bool(bool), Num(String), Str(String), Arr(Vec<JV>), Obj(Vec<(String, JV)>) }

impl JV {
    pub fn to_case(&self) -> J {
        match self {
            JV::Null => json!(null), JV::Bool(b) => json!(b), JV::Num(s) => json!(["num", s]), JV::Str(s) => json!(s),
            JV::Arr(a) => json!(["arr", a.iter().map(|x| x.to_case()).collect::<Vec<_>>()]),
            JV::Obj(o) => json!(["obj", o.iter().map(|(k, v)| json!([k, v.to_case()])).collect::<Vec<_>>()]),
        }
    }
    pub fn from_case(j: &J) -> Option<JV> {
        Some(match j {
            J::Null => JV::Null, J::Bool(b) => JV::Bool(*b), J::String(s) => JV::Str(s.clone()),
            J::Array(a) => match a.first()?.as_str()? {
                "num" => JV::Num(a.get(1)?.as_str()?.to_owned()),
                "arr" => JV::Arr(a.get(1)?.as_array()?.iter().map(JV::from_case).collect::<Option<Vec<_>>>()?),
                "obj" => JV::Obj(a.get(1)?.as_array()?.iter().map(|kv| { let p = kv.as_array()?; Some((p.first()?.as_str()?.to_owned(), JV::from_case(p.get(1)?)?)) }).collect::<Option<Vec<_>>>()?),
                _ => return None,
            },
            _ => return None,
        })
    }
    pub fn depth(&self) -> usize { match self { JV::Arr(a) => 1 + a.iter().map(|x| x.depth()).max().unwrap_or(0), JV::Obj(o) => 1 + o.iter().map(|(_, v)| v.depth()).max().unwrap_or(0), _ => 0 } }
    /// does the document contain a number whose magnitude is outside f64 (a decoder may reject the whole line)?
    pub fn has_unrepresentable_number(&self) -> bool {
        match self { JV::Num(s) => s.parse::<f64>().map(|x| x.is_infinite()).unwrap_or(true), JV::Arr(a) => a.iter().any(|x| x.has_unrepresentable_number()), JV::Obj(o) => o.iter().any(|(_, v)| v.has_unrepresentable_number()), _ => false }
    }
}

/// every value a path can legitimately resolve to (duplicate keys: any of the duplicates); the flag tells whether
/// some choice among duplicates leads nowhere (absent); no value and no flag = plainly absent
pub fn resolve<'a>(doc: &'a JV, steps: &[JsonStep]) -> Vec<&'a JV> { resolve2(doc, steps).0 }

pub fn resolve2<'a>(doc: &'a JV, steps: &[JsonStep]) -> (Vec<&'a JV>, bool) {
    let mut cur = vec![doc];
    let mut dead_branch = false;
    for s in steps {
        let mut next = Vec::new();
        for d in cur {
            let before = next.len();
            match (s, d) {
                (JsonStep::Field(f), JV::Obj(o)) => { for (k, v) in o { if k == f { next.push(v); } } }
                (JsonStep::Index(i), JV::Arr(a)) => { if let Some(v) = a.get(*i as usize) { next.push(v); } }
                _ => {}
            }
            if next.len() == before { dead_branch = true; }
        }
        cur = next;
        if cur.is_empty() { break; }
    }
    (cur, dead_branch)
}

fn number_accept(ty: &Ty, spelling: &str) -> Vec<RV> {
    match ty {
        Ty::Int => {
            if let Some(i) = parse_int_lit(spelling) {
                if spelling == "-0" { vec![RV::Null, RV::Int(0)] } else { vec![RV::Int(i)] }
            } else {
                // 1.0, 1e2, ... : a number, but not an integer token: NULL, or the integral value it denotes
                let mut v = vec![RV::Null];
                if let Ok(x) = spelling.parse::<f64>() { if x == x.trunc() && x.abs() < 9.2e18 { v.push(RV::Int(x as i64)); } }
                v
            }
        }
        Ty::Real => match spelling.parse::<f64>() { Ok(x) if x.is_finite() => vec![RV::Real(x)], _ => vec![RV::Null, RV::Real(f64::INFINITY), RV::Real(f64::NEG_INFINITY)] },
        _ => vec![RV::Null],
    }
}

fn leaf_accept(ty: &Ty, v: &JV, convert: bool, default: &RV) -> Vec<RV> {
    if convert {
        return match v { JV::Str(s) => literal_accept(ty, s).vals, JV::Null => vec![RV::Null, default.clone()], _ => vec![RV::Null] };
    }
    match (ty, v) {
        (_, JV::Null) => vec![RV::Null, default.clone()],
        (Ty::Int, JV::Num(s)) | (Ty::Real, JV::Num(s)) => number_accept(ty, s),
        (Ty::Text, JV::Str(s)) => vec![RV::Text(s.clone())],
        (Ty::Bool, JV::Bool(b)) => vec![RV::Bool(*b)],
        (Ty::Arr(e), JV::Arr(items)) => {
            let mut combos: Vec<Vec<RV>> = vec![vec![]];
            for it in items {
                // inside arrays a null element is NULL (no default), mismatches are NULL
                let vals: Vec<RV> = match it { JV::Null => vec![RV::Null], other => leaf_accept(e, other, false, &RV::Null) };
                let mut next = Vec::new();
                for c in &combos { for v in &vals { let mut n = c.clone(); n.push(v.clone()); next.push(n); if next.len() >= 32 { break; } } }
                combos = next;
            }
            combos.into_iter().map(|c| RV::Arr((**e).clone(), c)).collect()
        }
        _ => vec![RV::Null],
    }
}

/// `doc = None`: the line is not one JSON document
pub fn expect_json_column(col: &ColSpec, doc: Option<&JV>) -> Accept {
    let default = default_of(col);
    let Src::Json(steps) = &col.src else { return Accept::one(RV::Null, "not-json") };
    // absent path / not a document: the declared DEFAULT, NULL when none is declared
    let Some(doc) = doc else { return Accept::one(default, "not-a-document") };
    let (found, dead_branch) = resolve2(doc, steps);
    let mut vals = Vec::new();
    let situation = if found.is_empty() { vals.push(default.clone()); "path-absent" } else {
        for f in &found { vals.extend(leaf_accept(&col.ty, f, col.convert(), &default)); }
        // with duplicate keys another duplicate may lead nowhere
        if dead_branch { vals.push(default.clone()); }
        if found.len() > 1 || dead_branch { "duplicate-keys" } else { "path-present" }
    };
    if doc.has_unrepresentable_number() { vals.push(RV::Null); vals.push(default); }
    Accept::of(vals, situation)
}
