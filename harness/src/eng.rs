//! Thin wrappers around sqlgrep's public API at the three observation boundaries
//! (engine, executor, CLI). No semantics live here.

use std::fs::File;
use std::path::{Path, PathBuf};
use std::sync::atomic::{AtomicBool, Ordering};
use std::sync::Arc;

use sqlgrep::data_model::Tables;
use sqlgrep::execution::execution_engine::{ExecutionConfig, ExecutionEngine};
use sqlgrep::executor::{DisplayOptions, FileExecutor, OutputFormat, Printer};
use sqlgrep::model::Statement;

use crate::runner::{guard, PanicRec};
use crate::val::RV;

#[derive(Debug, Clone)]
pub enum EngErr { Err(String), Panic(PanicRec) }

impl EngErr {
    pub fn is_panic(&self) -> bool { matches!(self, EngErr::Panic(_)) }
    pub fn show(&self) -> String { match self { EngErr::Err(e) => format!("Err({})", e), EngErr::Panic(p) => p.describe() } }
}

pub fn parse(text: &str) -> Result<Statement, EngErr> {
    match guard(|| sqlgrep::parsing::parse(text)) {
        Ok(Ok(s)) => Ok(s),
        Ok(Err(e)) => Err(EngErr::Err(format!("{}", e))),
        Err(p) => Err(EngErr::Panic(p)),
    }
}

pub fn tables_from(text: &str) -> Result<Tables, EngErr> {
    let stmt = parse(text)?;
    let mut tables = Tables::new();
    if !tables.add_tables(stmt) { return Err(EngErr::Err("not a CREATE TABLE".into())); }
    Ok(tables)
}

/// Tables from the SQL text of the specs; modifiers beyond the one the CREATE TABLE grammar can express per column
/// (`Modifier::Combo`) are then set through the library API (`TableDefinition.columns[i].options`, all public fields).
pub fn tables_from_specs(specs: &[&crate::ast::TableSpec]) -> Result<Tables, EngErr> {
    use crate::ast::{Modifier, E};
    let text: String = specs.iter().map(|s| s.text()).collect::<Vec<_>>().join(" ");
    let parsed = tables_from(&text)?;
    if specs.iter().all(|s| s.cols.iter().all(|c| c.api_only_parts().is_empty())) { return Ok(parsed); }
    let r = guard(|| -> Result<Tables, String> {
        let mut defs = Vec::new();
        for spec in specs {
            let mut def = parsed.get(&spec.name).ok_or_else(|| format!("table {} missing", spec.name))?.clone();
            for c in &spec.cols {
                let Some(col) = def.columns.iter_mut().find(|d| d.name == c.name) else { return Err(format!("column {} missing", c.name)); };
                for m in c.api_only_parts() {
                    match m {
                        Modifier::NotNull => col.options.nullable = false,
                        Modifier::Trim => col.options.trim = true,
                        Modifier::Convert => col.options.convert = true,
                        Modifier::Microseconds => col.options.microseconds = true,
                        Modifier::Default(e) => col.options.default_value = Some(match e { E::Int(i) => sqlgrep::model::Value::Int(*i as i64), E::Real(x) => sqlgrep::model::Value::Float(sqlgrep::model::Float(*x)), E::Str(t) => sqlgrep::model::Value::String(t.clone()), E::Bool(b) => sqlgrep::model::Value::Bool(*b), _ => sqlgrep::model::Value::Null }),
                        Modifier::None | Modifier::Combo(_) => {}
                    }
                }
            }
            defs.push(def);
        }
        Ok(Tables::with_tables(defs))
    });
    match r { Ok(Ok(t)) => Ok(t), Ok(Err(e)) => Err(EngErr::Err(e)), Err(p) => Err(EngErr::Panic(p)) }
}

#[derive(Debug, Clone)]
pub struct RowsOut { pub columns: Vec<String>, pub rows: Vec<Vec<RV>> }

impl RowsOut {
    pub fn empty() -> RowsOut { RowsOut { columns: Vec::new(), rows: Vec::new() } }
    pub fn show(&self) -> String {
        format!("{:?} {}", self.columns, self.rows.iter().map(|r| crate::val::show_row(r)).collect::<Vec<_>>().join(" "))
    }
}

fn convert(rr: &sqlgrep::execution::ResultRow) -> RowsOut {
    RowsOut { columns: rr.columns.clone(), rows: rr.data.iter().map(|r| r.columns.iter().map(RV::from_engine).collect()).collect() }
}

#[derive(Debug, Clone)]
pub struct LineOut { pub out: Option<RowsOut>, pub reached_limit: bool, pub updated: bool }

/// Engine boundary: one `execute(line, config)` per line on one engine; stops at the first error.
/// `join` statements get their joined table loaded first. Returns the outputs produced so far and the error, if any.
pub fn exec_lines(tables: &Tables, stmt: &Statement, lines: &[String], update: bool, result: bool) -> (Vec<LineOut>, Option<EngErr>) {
    let mut outs = Vec::new();
    let r = guard(|| -> Result<(), String> {
        let mut engine = ExecutionEngine::new(tables, stmt);
        engine.execute_joined_table(Arc::new(AtomicBool::new(true))).map_err(|e| format!("{}", e))?;
        let cfg = ExecutionConfig { update, result };
        for line in lines {
            let o = engine.execute(line.clone(), &cfg).map_err(|e| format!("{}", e))?;
            outs.push(LineOut { out: o.result_row.as_ref().map(convert), reached_limit: o.reached_limit, updated: o.updated });
        }
        Ok(())
    });
    let err = match r { Ok(Ok(())) => None, Ok(Err(e)) => Some(EngErr::Err(e)), Err(p) => Some(EngErr::Panic(p)) };
    (outs, err)
}

/// Engine boundary, batch mode as `FileExecutor` drives it: select -> concatenated rows;
/// aggregate -> update-only per line, then one `aggregate_result`. LIMIT is honoured as the executor does.
pub fn exec_batch(tables: &Tables, stmt: &Statement, lines: &[String]) -> Result<RowsOut, EngErr> {
    let r = guard(|| -> Result<RowsOut, String> {
        let mut engine = ExecutionEngine::new(tables, stmt);
        engine.execute_joined_table(Arc::new(AtomicBool::new(true))).map_err(|e| format!("{}", e))?;
        let cfg = engine.execution_config();
        let mut acc = RowsOut::empty();
        for line in lines {
            let o = engine.execute(line.clone(), &cfg).map_err(|e| format!("{}", e))?;
            if let Some(rr) = o.result_row.as_ref() {
                let c = convert(rr);
                if acc.columns.is_empty() { acc.columns = c.columns; }
                acc.rows.extend(c.rows);
            }
            if o.reached_limit { break; }
        }
        if engine.is_aggregate() {
            let o = engine.execute(String::new(), &ExecutionConfig::aggregate_result()).map_err(|e| format!("{}", e))?;
            if let Some(rr) = o.result_row.as_ref() { acc = convert(rr); }
        }
        Ok(acc)
    });
    match r { Ok(Ok(v)) => Ok(v), Ok(Err(e)) => Err(EngErr::Err(e)), Err(p) => Err(EngErr::Panic(p)) }
}

/// Batch mode with the result asked for several times from ONE engine: update-only per line, a result after the first `cut`
/// lines, after all lines, and once more (what an executor called again over further input, or a caller polling the result, does).
pub fn exec_batch_results(tables: &Tables, stmt: &Statement, lines: &[String], cut: usize) -> Result<Vec<RowsOut>, EngErr> {
    let r = guard(|| -> Result<Vec<RowsOut>, String> {
        let mut engine = ExecutionEngine::new(tables, stmt);
        engine.execute_joined_table(Arc::new(AtomicBool::new(true))).map_err(|e| format!("{}", e))?;
        let cfg = engine.execution_config();
        let mut out = Vec::new();
        let result = |engine: &mut ExecutionEngine| -> Result<RowsOut, String> {
            let o = engine.execute(String::new(), &ExecutionConfig::aggregate_result()).map_err(|e| format!("{}", e))?;
            Ok(o.result_row.as_ref().map(convert).unwrap_or_else(RowsOut::empty))
        };
        for (i, line) in lines.iter().enumerate() {
            if i == cut { out.push(result(&mut engine)?); }
            engine.execute(line.clone(), &cfg).map_err(|e| format!("{}", e))?;
        }
        if cut >= lines.len() { out.push(result(&mut engine)?); }
        out.push(result(&mut engine)?);
        out.push(result(&mut engine)?);
        Ok(out)
    });
    match r { Ok(Ok(v)) => Ok(v), Ok(Err(e)) => Err(EngErr::Err(e)), Err(p) => Err(EngErr::Panic(p)) }
}

// ---------------------------------------------------------------------------------------------
// executor boundary

pub struct RecPrinter {
    pub lines: Vec<String>,
    /// clear `running` after this many non-blank records
    pub stop_after: Option<usize>,
    pub running: Arc<AtomicBool>,
    records: usize,
}

impl RecPrinter {
    pub fn new(running: Arc<AtomicBool>, stop_after: Option<usize>) -> RecPrinter { RecPrinter { lines: Vec::new(), stop_after, running, records: 0 } }
}

impl Printer for RecPrinter {
    fn println(&mut self, line: &str) {
        self.lines.push(line.to_owned());
        if !line.is_empty() { self.records += 1; }
        if let Some(n) = self.stop_after { if self.records >= n { self.running.store(false, Ordering::SeqCst); } }
    }
}

pub struct ExecOut { pub result: Result<(), EngErr>, pub printed: Vec<String>, pub total_lines: u64, pub total_result_rows: u64 }

pub fn format_of(name: &str) -> OutputFormat {
    match name { "json" => OutputFormat::Json, "csv" => OutputFormat::CSV(";".to_owned()), _ => OutputFormat::Text }
}

pub fn run_executor(tables: &Tables, stmt: &Statement, paths: &[PathBuf], format: &str, single_result: bool,
                    running: Arc<AtomicBool>, stop_after: Option<usize>) -> ExecOut {
    run_executor_opts(tables, stmt, paths, format, single_result, running, stop_after, true)
}

/// `print_result = false` is the executor's quiet mode (statistics only, nothing printed)
pub fn run_executor_opts(tables: &Tables, stmt: &Statement, paths: &[PathBuf], format: &str, single_result: bool,
                         running: Arc<AtomicBool>, stop_after: Option<usize>, print_result: bool) -> ExecOut {
    let mut printed = Vec::new();
    let mut total_lines = 0;
    let mut total_result_rows = 0;
    let r = guard(|| -> Result<(), String> {
        let mut files = Vec::new();
        for p in paths { files.push(File::open(p).map_err(|e| format!("open {}: {}", p.display(), e))?); }
        let printer = RecPrinter::new(running.clone(), stop_after);
        let opts = DisplayOptions { output_format: format_of(format), single_result, print_result };
        let mut ex = FileExecutor::with_output_printer(running.clone(), files, opts, printer, ExecutionEngine::new(tables, stmt)).map_err(|e| format!("{}", e))?;
        let res = ex.execute();
        printed = ex.output_printer().printer().lines.clone();
        total_lines = ex.statistics().total_lines;
        total_result_rows = ex.statistics().total_result_rows;
        res.map_err(|e| format!("{}", e))
    });
    let result = match r { Ok(Ok(())) => Ok(()), Ok(Err(e)) => Err(EngErr::Err(e)), Err(p) => Err(EngErr::Panic(p)) };
    ExecOut { result, printed, total_lines, total_result_rows }
}

// ---------------------------------------------------------------------------------------------
// scratch space

pub fn scratch_dir() -> PathBuf {
    let base = if Path::new("/dev/shm").is_dir() { PathBuf::from("/dev/shm") } else { std::env::temp_dir() };
    let dir = base.join(format!("sqlgrep-verif-{}", std::process::id()));
    let _ = std::fs::create_dir_all(&dir);
    dir
}

pub fn cleanup_scratch() { let _ = std::fs::remove_dir_all(scratch_dir()); }

pub fn write_scratch(name: &str, bytes: &[u8]) -> PathBuf {
    let p = scratch_dir().join(name);
    std::fs::write(&p, bytes).expect("write scratch file");
    p
}

/// path of the CLI binary built from the same tree (set by the driver)
pub fn cli_path() -> Option<PathBuf> { std::env::var("VERIF_CLI").ok().map(PathBuf::from).filter(|p| p.exists()) }
