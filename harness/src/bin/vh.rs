//! `vh <property> --seed S --shard i/n --tier quick|thorough --out DIR [--time SECS] [--budget X] [--findings DIR]`
//! `vh replay FILE`   (FILE = {"property": "...", "case": {...}})

use std::path::PathBuf;

use serde_json::{json, Value as J};

use sv::runner::{self, guard, Obs, ShardArgs, Tier, Verdict};

fn arg(args: &[String], name: &str) -> Option<String> {
    args.iter().position(|a| a == name).and_then(|i| args.get(i + 1).cloned())
}

fn real_main() -> i32 {
    let args: Vec<String> = std::env::args().collect();
    if args.len() < 2 { eprintln!("usage: vh <property>|replay ..."); return 2; }
    runner::install_panic_hook();
    if args[1] == "replay" {
        let Some(path) = args.get(2) else { eprintln!("usage: vh replay FILE"); return 2; };
        let Ok(text) = std::fs::read_to_string(path) else { eprintln!("cannot read {}", path); return 2; };
        let Ok(doc) = serde_json::from_str::<J>(&text) else { eprintln!("not JSON: {}", path); return 2; };
        let id = doc.get("property").and_then(|p| p.as_str()).unwrap_or("");
        let Some(mon) = sv::monitors::by_id(id) else { eprintln!("unknown property {:?}", id); return 2; };
        let Some(case) = doc.get("case") else { eprintln!("no case in {}", path); return 2; };
        let mut obs = Obs::default();
        let verdict = match guard(|| mon.check(case, &mut obs)) {
            Ok(v) => v,
            Err(p) => Verdict::Violated(vec![runner::Violation::new(p.sig(), format!("uncaught {}", p.describe()))]),
        };
        let out = match verdict {
            Verdict::Held => json!({"verdict": "held", "nontrivial": obs.nontrivial, "features": obs.features}),
            Verdict::Inconclusive(r) => json!({"verdict": "inconclusive", "reason": r}),
            Verdict::Violated(vs) => json!({"verdict": "violated", "violations": vs.iter().map(|v| json!({"sig": v.sig, "detail": v.detail})).collect::<Vec<_>>()}),
        };
        println!("{}", serde_json::to_string_pretty(&out).unwrap());
        sv::eng::cleanup_scratch();
        return if out["verdict"] == "violated" { 1 } else if out["verdict"] == "inconclusive" { 2 } else { 0 };
    }
    if args[1] == "miri-laws" {
        // law checker over a reduced pool, no file I/O: small enough for the Miri interpreter (undefined behaviour / data race detector)
        let (pairs, triples, violations) = sv::monitors::c16::laws_small();
        println!("miri-laws pairs={} triples={} violations={}", pairs, triples, violations.len());
        for v in &violations { println!("  {}", v); }
        return if violations.is_empty() { 0 } else { 1 };
    }
    if args[1] == "miri-interrupt" {
        // one small JSON-table case with a real interrupter thread: Miri's data-race detector watches the shared flag and the executor
        let seed: u64 = args.get(2).and_then(|s| s.parse().ok()).unwrap_or(1);
        let mut rng = sv::rng::Rng::new(seed);
        let case = loop { let c = sv::monitors::c19::gen_case(&mut rng, "thread"); if c["tables"].as_str().map(|t| t.contains("{ . k }")).unwrap_or(false) && c["joined"].is_null() { break c; } };
        let mon = sv::monitors::by_id("C19").unwrap();
        let mut obs = Obs::default();
        let v = mon.check(&case, &mut obs);
        let (code, text) = match v { Verdict::Held => (0, "held".to_string()), Verdict::Inconclusive(r) => (0, format!("inconclusive: {}", r)), Verdict::Violated(vs) => (1, vs.iter().map(|v| format!("{} :: {}", v.sig, v.detail)).collect::<Vec<_>>().join("; ")) };
        println!("miri-interrupt seed={} evals={} verdict={}", seed, obs.evals, text);
        sv::eng::cleanup_scratch();
        return code;
    }
    if args[1] == "follow-exec" {
        // child of the C10 monitor: the real FollowFileExecutor prints to this process' stdout
        let Some(path) = args.get(2) else { return 2; };
        let Ok(text) = std::fs::read_to_string(path) else { return 2; };
        let Ok(case) = serde_json::from_str::<J>(&text) else { return 2; };
        let code = sv::monitors::c10::follow_exec_child(&case);
        sv::eng::cleanup_scratch();
        return code;
    }
    if args[1] == "run-case" {
        // child of the C18 monitor: fresh process = fresh hash seeds
        let Some(path) = args.get(2) else { return 2; };
        let Ok(text) = std::fs::read_to_string(path) else { return 2; };
        let Ok(case) = serde_json::from_str::<J>(&text) else { return 2; };
        println!("#canary {}", sv::monitors::c18::canary());
        println!("{}", sv::monitors::c18::run_case_to_string(&case, "child"));
        sv::eng::cleanup_scratch();
        return 0;
    }
    let id = args[1].clone();
    let Some(mon) = sv::monitors::by_id(&id) else { eprintln!("unknown property {:?}", id); return 2; };
    let seed: u64 = arg(&args, "--seed").and_then(|s| s.parse().ok()).unwrap_or(1);
    let (shard, nshards) = arg(&args, "--shard").and_then(|s| { let (a, b) = s.split_once('/')?; Some((a.parse().ok()?, b.parse().ok()?)) }).unwrap_or((0usize, 1usize));
    let tier = match arg(&args, "--tier").as_deref() { Some("thorough") => Tier::Thorough, _ => Tier::Quick };
    let out_dir = PathBuf::from(arg(&args, "--out").unwrap_or_else(|| ".".into()));
    let time_s: f64 = arg(&args, "--time").and_then(|s| s.parse().ok()).unwrap_or(if tier == Tier::Quick { 25.0 } else { 240.0 });
    let budget: f64 = arg(&args, "--budget").and_then(|s| s.parse().ok()).unwrap_or(1.0);
    let findings_dir = PathBuf::from(arg(&args, "--findings").unwrap_or_else(|| "/verif/findings".into()));
    let _ = std::fs::create_dir_all(&out_dir);
    let sargs = ShardArgs { seed, shard, nshards, tier, out_dir: out_dir.clone(), time_s, budget, findings_dir };
    let result = runner::run_shard(mon.as_ref(), &sargs);
    let path = out_dir.join(format!("shard-{}.json", shard));
    runner::write_file(&path, serde_json::to_string(&result).unwrap().as_bytes());
    sv::eng::cleanup_scratch();
    0
}

fn main() {
    // the CLI parses and executes on the main thread (8 MiB stack on Linux); do the same here
    let child = std::thread::Builder::new().stack_size(8 * 1024 * 1024).spawn(real_main).expect("spawn");
    let code = child.join().unwrap_or(3);
    std::process::exit(code);
}
