pub mod rng;
pub mod runner;
pub mod val;
pub mod eng;
pub mod ast;
pub mod gen;
pub mod conv;
pub mod monitors;
