#!/usr/bin/env python3
"""Regenerates /verif/MANIFEST.json from the table below (claimed properties) and validates it."""
import json, os, subprocess, sys

VERIF = os.path.dirname(os.path.dirname(os.path.abspath(__file__)))

# id -> (technique, level text, level note, design ref)
CLAIMED = {
 "C10": ("runtime monitoring: hooked-schedule monitor - the real FollowFileIterator reads a real file while the follow_eof hook performs the next scripted append / idle poll exactly when the reader saw EOF; oracle over the delivered line sequence; small-scope exhaustive + random schedules, writer threads and CLI in thorough",
         "Exploration with an exhaustive small scope. Every schedule (content, cut set into appends down to single bytes and inside multi-byte characters, idle polls, BufReader capacity, start offset) is executed against the real iterator; delivered lines must equal the newline-terminated lines of the appended content, once, in order, byte for byte. All contents of <= 4 characters over {a, e-acute, emoji, LF} x all cut sets x capacities {1,2,4,8192} are enumerated in every run; thorough adds real writer threads (distinct interleavings recorded) and `sqlgrep -f --head` as a subprocess.",
         "Trusted: tmpfs append visibility; the hook fires at the reader's EOF retry (the only point where a poll can observe a new append). Start-at-end semantics are exercised at iterator level (seek before construction). Lines of 8 KiB..2 MiB run in every quick run (..16 MiB thorough).",
         "DESIGN.md §7 C10"),
 "C12": ("runtime monitoring: reference-model monitor (harness line splitter) at the executor boundary + relational monitor (run over [f1..fk] vs run over the concatenation) + fault injection of invalid UTF-8 lines",
         "Exploration. FileExecutor is run over generated files (LF/CRLF/empty/unterminated/long lines, 1-5 files); records and statistics.total_lines must equal the harness' own splitting of the bytes; SELECT / aggregate / join statements over split files must print exactly what they print over the concatenation; a line that is not UTF-8 (main or joined file) must not silently drop later lines.",
         "Trusted: the harness' line splitter (LF / CRLF) and serde_json for decoding printed records. LIMIT is excluded here (C07). Lines with byte-order marks, NUL, content ending in CR, invalid UTF-8 at any index 0..70 of the main or joined file.",
         "DESIGN.md §7 C12"),
 "C13": ("runtime monitoring: reference-grammar monitor - generator-owned ASTs printed with minimal parentheses, parse() result compared structurally (model::ExpressionTree -> harness AST); exhaustive operator-pair enumeration + random trees",
         "Exploration with an exhaustive operator-pair scope. The harness prints its own AST with minimal parentheses under the standard grammar stated in the property and requires parsing::parse to recover exactly that AST; every (outer operator, inner operator, operand position) triple over 20 operator shapes, negative operands after every binary operator and one-element IN lists are enumerated in every run, plus random trees to depth 6 with redundant parentheses.",
         "Trusted: the reference precedence table of the property statement (IS/IN at comparison level, left associativity) and the harness' minimal-parenthesis printer. The structural converter ignores nothing but maps regex_matches/regexp_matches to one name. Each tree is also rendered without the optional blanks (`xs[1]-1`).",
         "DESIGN.md §7 C13"),
 "C14": ("runtime monitoring: crash/abort monitor (catch_unwind + panic-site signature) over generated, mutated, truncated and hostile statement texts; error-location oracle",
         "Exploration. parse and parse_into_tree are executed under a panic monitor on an 8 MiB stack over random Unicode, token soups, generated valid statements with one token deleted/duplicated/swapped/replaced, every character prefix of generated statements, a corpus of malformed definitions/aggregates/numbers and bracket nesting up to the documented bound 256; every Err must carry a location inside the text and extract_near must return. Held = no panic/abort/hang and no out-of-text location on the executions listed in the evidence.",
         "Trusted: the harness' own notion of 'inside the text' (line <= number of line breaks, column <= characters of that line + 1). Hangs are decided by the driver's two-stage watchdog. Nesting beyond 256 is out of scope.",
         "DESIGN.md §7 C14"),
 "C16": ("runtime monitoring: law checker on sqlgrep::model::Value (==, cmp, partial_cmp, Hash under SipHash and FNV) exhaustive over all pairs and triples of a value pool + consumer-level monitors (GROUP BY, DISTINCT, COUNT(DISTINCT), array_unique, MIN/MAX, JOIN) against the reference equality",
         "Exploration with an exhaustive pool. For every anchor value of a ~95-value pool (NULL, i64/f64 extremes, -0.0, NaN, infinities, nested arrays, equal instants and intervals, empty strings) all pairs and all triples are checked for eq<=>cmp, antisymmetry, partial_cmp==cmp, operator agreement, hash agreement, transitivity, INT/REAL numeric order and the per-type value order; random nested triples; consumer level: the groups / distinct rows / joined pairs the engine forms over REAL keys incl. -0.0, NaN, inf (small and >128-element sets) must be exactly the reference equality classes.",
         "Trusted: the reference equality (numbers by value, -0.0 = 0.0, NaN equal to itself only). The six WHERE operators are evaluated by the engine on every pair (trichotomy, derived operators, agreement with the value order; a timestamp against the same instant written as text). One open finding (INT vs REAL ordered by variant) is listed in KNOWN_FINDINGS.txt and masks exactly that signature.",
         "DESIGN.md §7 C16"),
 "C17": ("runtime monitoring: round-trip monitor - OutputPrinter::print is called with result rows the harness holds and the printed records are decoded and compared cell by cell; FileExecutor end to end in all formats",
         "Exploration. ResultRows of every value type (hostile text, 64-bit extremes, subnormal and huge REALs, arrays of 0-200 elements, NULLs) are printed in json / csv / text with single_result on and off over 1-4 consecutive results; #records = #rows in order, JSON keys = column names in order and values recover the row exactly, CSV has one header first and one field per column, text lists name: value pairs; an end-to-end kind pairs FileExecutor output with the engine's own rows.",
         "Trusted: serde_json for the structure of printed records (REALs are judged on the printed token with std's correctly rounding parser); the harness' own rendering of timestamps (years 0..9999) and non-negative intervals; REAL text forms must be the value correctly rounded at the shown precision (exact decimal arithmetic); CSV/text content checks only for delimiter-free values (as the property states).",
         "DESIGN.md §7 C17"),
 "C18": ("runtime monitoring: differential monitor across fresh processes (fresh SipHash keys) and in-process repetitions; byte comparison of everything printed; canary HashMap proves the seeds varied",
         "Exploration. Each case (wide `*`, 4-8 aggregates over 20-60 groups, join buckets with duplicates, HAVING, COUNT(DISTINCT), array_unique, 1-8 unrelated tables, all formats) runs in 5 fresh processes and 3 times in-process at the executor boundary; all outputs must be byte-identical. The run is inconclusive unless >= 2 distinct canary iteration orders were observed.",
         "Trusted: nothing but byte comparison. now() is never generated. Two cases of 5000-9000 lines (array_unique(array_agg), COUNT(DISTINCT), hundreds of groups) run in every quick run; tables whose names differ only in letter case and IN lists with entries that cannot be compared are generated.",
         "DESIGN.md §7 C18"),
 "C19": ("runtime monitoring: hooked-schedule monitor - the running flag is cleared by the batch_line hook at every line index of the main loop and of the joined-file loader and by the printer after every record index; oracle = prefix relation against uninterrupted runs over exactly the consumed lines; interrupter thread and SIGINT to the CLI in thorough",
         "Exploration, exhaustive over interrupt points per generated case. For plain / DISTINCT / join / aggregate statements over 1-3 files every interrupt point is tried; the result must be Ok, total_lines must equal the lines consumed before the clear (at most 10 more joined-file lines), and the printed output must equal an uninterrupted run over exactly those lines.",
         "Trusted: 'consumed' = presented to the query (statistics.total_lines; lines that are not valid UTF-8 are skipped uncounted); one line per remaining file may be fetched and discarded by the reader. Also: the flag already cleared when execute() is entered, and the follow-mode executor interrupted while waiting at end of file (later lines must be neither evaluated nor read on).",
         "DESIGN.md §7 C19"),
 "C20": ("runtime monitoring: metamorphic monitor - layout / case / comment / semicolon / clause-order variants generated between harness-owned tokens; Debug rendering of the parsed Statement must equal the base's",
         "Exploration, clause permutations exhaustive per statement. 6 random variants per base (case flips of case-insensitive tokens, whitespace runs incl. Unicode spaces, blank removal where tokens cannot run together, -- comments, trailing semicolon) plus every permutation of the present JOIN/WHERE/GROUP BY/HAVING/LIMIT clauses; each must parse to a Statement whose Debug rendering equals the base's.",
         "Trusted: the harness' rule for when two tokens may touch. A base in canonical spelling that is rejected while a re-spelling is accepted is a violation; rejected in every spelling = inconclusive (C13/C14). String literals are checked directly: the escaped text must come out of the lowered statement unchanged at seven positions.",
         "DESIGN.md §7 C20"),
}


CLAIMED.update({
 "C01": ("runtime monitoring: reference-model monitor - the engine's SELECT * rows are compared column by column with an independent reference extraction (group->column mapping, typed literal grammars, modifiers, arrays, multi-group timestamps) over generated definitions and constructively built hostile lines",
         "Exploration. Generated CREATE TABLE texts (1-3 capture/split patterns from a template grammar, 1-7 columns of every source kind, type and modifier) and 8 lines each (type-aware pools: 64-bit extremes, float spellings, month names, out-of-range date parts, padding; duplicated instances, near misses, noise); each engine row must lie in the per-column accept set and exist iff admission allows it.",
         "Trusted: the regex crate for which text a group captured; std's f64 parser for the value of a text the model's grammar accepted; chrono itself for which non-canonical timestamp spellings are literals (the canonical spelling and the calendar are the harness' own); TZ=UTC. Several modifiers on one column are declared through the library API. Accept sets where the statement is silent are listed in DESIGN Appendix A and Amendments.",
         "DESIGN.md §7 C01"),
 "C02": ("runtime monitoring: generator-as-oracle monitor - JSON documents are owned by the harness (own writer, number spellings, escapes, duplicate keys), expected values are read off the generated tree, never parsed",
         "Exploration. Tables with 1-6 JSON-path columns (paths chosen by walking a generated document, every type, CONVERT/DEFAULT/NOT NULL) plus sometimes a regex column, 6 lines each incl. non-documents; every engine row is checked against per-column accept sets.",
         "Trusted: documents nest <= 100 deep; std's f64 parser for number spellings; duplicate keys may resolve to any duplicate.",
         "DESIGN.md §7 C02"),
 "C03": ("runtime monitoring: node-local reference-semantics monitor - every sub-expression is evaluated through the engine on the same row and checked against the reference semantics given the engine's own values of its children; statement-level row/WHERE/name/star oracle; lowering check against the generator's AST",
         "Exploration. Generated SELECT statements (fully parenthesised, depth <= 4, 6 % ill-typed nodes, boundary literals, zero divisors) over standard typed tables with NULLs in every position; thousands of distinct (node kind x operand type) cells are observed per run (listed in the evidence).",
         "Trusted: extraction (C01/C02), the regex crate, std float arithmetic and case mapping; accept sets of Appendix A.4.",
         "DESIGN.md §7 C03"),
 "C04": ("runtime monitoring: reference fold over engine-evaluated per-row keys and arguments, compared group by group with the engine's batch result; failing statements are re-run with each aggregate alone to name the aggregate at fault",
         "Exploration. Generated aggregate statements (1-4 aggregates of every kind in any order mixed with key expressions, with/without GROUP BY, WHERE, HAVING with hidden aggregates, agg op const, p in {0,.25,.5,.9,1}) over data with all-NULL and single-row groups.",
         "Trusted: per-row expression values come from the engine (C03); accept sets of Appendix A.5. One open finding (group without any aggregate value gets no row) is listed in KNOWN_FINDINGS.txt.",
         "DESIGN.md §7 C04"),
 "C05": ("runtime monitoring: differential monitor - the engine's join result vs the engine's own result over harness-paired rows written as one pre-joined table; fault injection of missing file / table / column",
         "Exploration. Two standard tables, keys of every scalar type incl. NULL / duplicated / absent keys, INNER / OUTER, ON in either orientation, SELECT / DISTINCT / aggregate statements over both sides' columns with qualified and unqualified names; `*` column order and clash qualification.",
         "Trusted: the nested-loop pairing (equal non-NULL keys, r then s order, NULL-extended rows for OUTER non-aggregates); each side's rows and the statement evaluation are the engine's own. DEFAULT columns, twin columns differing only in letter case, blank / foreign / repeated lines on both sides, CRLF and unterminated joined files, fault cases with LIMIT.",
         "DESIGN.md §7 C05"),
 "C06": ("runtime monitoring: metamorphic monitor - reference-certified non-admitted lines are interleaved at random positions (main and joined file); batch and per-line incremental outputs must be unchanged",
         "Exploration. Plain / DISTINCT / LIMIT / aggregate / join statements over standard tables (optionally with a NOT NULL column); 1-10 noise lines per case certified by the reference extraction.",
         "Trusted: the reference extraction decides that a noise line is no row.",
         "DESIGN.md §7 C06"),
 "C07": ("runtime monitoring: relational monitor at the executor boundary - for every n the LIMIT n run must print the first n records of the unlimited run and consume no input beyond the line producing the n-th row",
         "Exploration, exhaustive over n in 0..rows+1 per case. Plain / DISTINCT / aggregate / join fan-out statements over 1-3 files, NULL-only rows included.",
         "Trusted: line provenance of rows is taken from per-line execution of the unlimited statement. The executor's quiet mode (print_result off) must consume exactly what the printing run consumes.",
         "DESIGN.md §7 C07"),
 "C08": ("runtime monitoring: relational monitor - SELECT DISTINCT output vs the same statement without DISTINCT filtered to first occurrences under the reference tuple equality; batch result and every incremental refresh",
         "Exploration. Select, join and aggregate DISTINCT (with/without HAVING), tuples differing by NULL / one column / -0.0 vs 0.0 / recurring after long gaps, large-set family with 150-400 distinct tuples, huge sets of 2^10..2^17 distinct rows in every quick run (..2^20 thorough), hundreds of lines over up to 300 keys in one case of 300.",
         "Trusted: reference tuple equality (NULL = NULL, numbers by value). NaN-containing outputs are skipped.",
         "DESIGN.md §7 C08"),
 "C09": ("runtime monitoring: crash monitor at the executor boundary (catch_unwind, overflow checks on, panic-site signatures) over hostile data and statements in all output formats; one subprocess per time zone, ASan and valgrind in thorough",
         "Exploration. Standard tables with hostile cell/literal pools, C01's and C02's generators, arbitrary bytes, and a fixed corpus of statements over NaN / inf / i64 extremes / DST-gap times / huge intervals; outcome must be output or Err.",
         "Trusted: a calendar walk (every month, five times of day) in 12 time zones also in the quick tier; silent wraps appear as overflow panics of the chk profile (`as` casts are covered by C01/C03 value oracles); hangs via the driver's watchdog.",
         "DESIGN.md §7 C09"),
 "C11": ("runtime monitoring: history monitor - lines fed one at a time with the follow-mode config; after every line the shown table / emitted rows are compared with a fresh batch run over exactly that prefix",
         "Exploration, every prefix length k per case. Statements without LIMIT incl. DISTINCT, HAVING, PERCENTILE, COUNT(DISTINCT), aggregate DISTINCT over 3-30 lines.",
         "Trusted: batch = update-only passes + one aggregate_result on a fresh engine. Aggregate columns of the two tables are compared bit for bit (REAL incl. the sign of zero), group-key columns by value; big cases (hundreds of lines) compare at ~35 sampled prefixes.",
         "DESIGN.md §7 C11"),
 "C15": ("runtime monitoring: metamorphic monitor - 11 permutations of the input per case must give the same aggregate table; for every cut point the result over A||B must equal the key-wise combination of the results over A and B",
         "Exploration. Order-insensitive aggregates with any GROUP BY / WHERE / HAVING over exactly summable data.",
         "Trusted: the combiner (add / min / max / union); REAL inputs are dyadic rationals. A statement that fails on the input as given must fail for every order; integers around 2^53 / 2^62 with MIN / MAX / COUNT / PERCENTILE only (running sums of such values overflow order-dependently).",
         "DESIGN.md §7 C15"),
})

NOT_YET = "monitor not built yet in this revision (planned, see DESIGN.md §7); not claimed until its check exists"

def main():
    props = [json.loads(l)["id"] for l in open(os.path.join(VERIF, "properties.jsonl")) if l.strip()]
    repo_commits = subprocess.run(["git", "-C", "/repo", "log", "--format=%h %s"], capture_output=True, text=True).stdout.splitlines()
    hook_commits = [l.split()[0] for l in repo_commits if l.split(" ", 1)[1].startswith("verif hook")]
    checks = []
    for p in props:
        if p not in CLAIMED:
            continue
        tech, text, note, ref = CLAIMED[p]
        checks.append({
            "property_id": p,
            "quick_cmd": "./check %s quick" % p,
            "thorough_cmd": "./check %s thorough" % p,
            "evidence_file": "/verif/evidence/%s.json" % p,
            "replay_cmd_template": "./check replay {path}",
            "engine": "vh",
            "level_claimed": {"category": "exploration", "text": text, "design_ref": ref},
            "level_note": note,
            "technique": tech,
        })
    manifest = {
        "version": 1,
        "setup_cmd": "./check setup",
        "hooks": {
            "guard": "cargo feature verif_hooks (off by default)",
            "enable": "the harness crate /verif/harness depends on sqlgrep = { path = \"/repo\", features = [\"verif_hooks\"] }; every check runs `cargo build --offline` on it, which recompiles /repo's working tree",
            "baseline_off_cmd": "cd /repo && cargo test --workspace --no-fail-fast --offline",
            "source_commits": hook_commits,
            "add_only": True,
        },
        "engines": [{"name": "vh", "path": "/verif/harness", "serves_properties": [c["property_id"] for c in checks],
                     "kind_free_text": "Rust harness crate (path-depends on /repo with feature verif_hooks): workload generators, reference models, per-property runtime monitors; driven by the python script /verif/check (build, 16 shard processes, watchdog, known-findings matching, evidence)"}],
        "checks": checks,
        "notes": "Runtime monitoring and sanitizers. Known findings: /verif/KNOWN_FINDINGS.txt (open entries suppress exactly their signature; fixed entries suppress nothing). Exit codes: 0 held, 1 violation, 2 inconclusive.",
        "not_applicable": [{"property_id": p, "reason": NOT_YET} for p in props if p not in CLAIMED],
    }
    path = os.path.join(VERIF, "MANIFEST.json")
    json.dump(manifest, open(path, "w"), indent=1)
    try:
        import jsonschema
        jsonschema.validate(manifest, json.load(open("/root/.vp/MANIFEST.schema.json")))
        print("MANIFEST.json valid:", len(checks), "checks,", len(manifest["not_applicable"]), "not applicable")
    except ImportError:
        print("MANIFEST.json written (jsonschema not importable with this python)")

if __name__ == "__main__":
    main()
