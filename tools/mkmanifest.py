#!/usr/bin/env python3
"""Regenerates /verif/MANIFEST.json from the table below (claimed properties) and validates it."""
import json, os, subprocess, sys

VERIF = os.path.dirname(os.path.dirname(os.path.abspath(__file__)))

# id -> (technique, level text, level note, design ref)
CLAIMED = {
 "C14": ("runtime monitoring: crash/abort monitor (catch_unwind + panic-site signature) over generated, mutated, truncated and hostile statement texts; error-location oracle",
         "Exploration. parse and parse_into_tree are executed under a panic monitor on an 8 MiB stack over random Unicode, token soups, generated valid statements with one token deleted/duplicated/swapped/replaced, every character prefix of generated statements, a corpus of malformed definitions/aggregates/numbers and bracket nesting up to the documented bound 256; every Err must carry a location inside the text and extract_near must return. Held = no panic/abort/hang and no out-of-text location on the executions listed in the evidence.",
         "Trusted: the harness' own notion of 'inside the text' (line <= number of line breaks, column <= characters of that line + 1). Hangs are decided by the driver's two-stage watchdog. Nesting beyond 256 is out of scope.",
         "DESIGN.md §7 C14"),
}

NOT_YET = "monitor not built yet in this revision (planned, see DESIGN.md §7); not claimed until its check exists"

def main():
    props = [json.loads(l)["id"] for l in open(os.path.join(VERIF, "properties.jsonl")) if l.strip()]
    repo_commits = subprocess.run(["git", "-C", "/repo", "log", "--format=%h %s"], capture_output=True, text=True).stdout.splitlines()
    hook_commits = [l.split()[0] for l in repo_commits if l.split(" ", 1)[1].startswith("verif hook")]
    checks = []
    for p in props:
        if p not in CLAIMED:
            continue
        tech, text, note, ref = CLAIMED[p]
        checks.append({
            "property_id": p,
            "quick_cmd": "./check %s quick" % p,
            "thorough_cmd": "./check %s thorough" % p,
            "evidence_file": "/verif/evidence/%s.json" % p,
            "replay_cmd_template": "./check replay {path}",
            "engine": "vh",
            "level_claimed": {"category": "exploration", "text": text, "design_ref": ref},
            "level_note": note,
            "technique": tech,
        })
    manifest = {
        "version": 1,
        "setup_cmd": "./check setup",
        "hooks": {
            "guard": "cargo feature verif_hooks (off by default)",
            "enable": "the harness crate /verif/harness depends on sqlgrep = { path = \"/repo\", features = [\"verif_hooks\"] }; every check runs `cargo build --offline` on it, which recompiles /repo's working tree",
            "baseline_off_cmd": "cd /repo && cargo test --workspace --no-fail-fast --offline",
            "source_commits": hook_commits,
            "add_only": True,
        },
        "engines": [{"name": "vh", "path": "/verif/harness", "serves_properties": [c["property_id"] for c in checks],
                     "kind_free_text": "Rust harness crate (path-depends on /repo with feature verif_hooks): workload generators, reference models, per-property runtime monitors; driven by the python script /verif/check (build, 16 shard processes, watchdog, known-findings matching, evidence)"}],
        "checks": checks,
        "notes": "Runtime monitoring and sanitizers. Known findings: /verif/KNOWN_FINDINGS.txt (open entries suppress exactly their signature; fixed entries suppress nothing). Exit codes: 0 held, 1 violation, 2 inconclusive.",
        "not_applicable": [{"property_id": p, "reason": NOT_YET} for p in props if p not in CLAIMED],
    }
    path = os.path.join(VERIF, "MANIFEST.json")
    json.dump(manifest, open(path, "w"), indent=1)
    try:
        import jsonschema
        jsonschema.validate(manifest, json.load(open("/root/.vp/MANIFEST.schema.json")))
        print("MANIFEST.json valid:", len(checks), "checks,", len(manifest["not_applicable"]), "not applicable")
    except ImportError:
        print("MANIFEST.json written (jsonschema not importable with this python)")

if __name__ == "__main__":
    main()
