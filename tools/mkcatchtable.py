#!/usr/bin/env python3
"""Rewrites the section 'Which checks catch which changes' of DESIGN.md from seeded/*/meta.json and selftest/results.json."""
import json, os, glob, re
V = os.path.dirname(os.path.dirname(os.path.abspath(__file__)))
rows = []
for d in sorted(glob.glob(os.path.join(V, "seeded", "*"))):
    m = os.path.join(d, "meta.json")
    if not os.path.exists(m):
        continue
    j = json.load(open(m))
    det = j.get("detected_by", {})
    note = (j.get("needs_to_manifest", "").strip().splitlines() or [""])
    first = next((l.strip("-* #") for l in note if len(l.strip()) > 20), "")[:150]
    initial = j.get("checks_run", "")
    missed_first = j.get("missed_when_first_run", False)
    rows.append(("seeded/" + os.path.basename(d), j.get("breaks_property", "?"), det.get("result", initial) + ((" (MISSED when first run - " + j.get("strengthening", "") + "; check strengthened, see Amendments B)" if missed_first else "")), det.get("first_signature", ""), first))
res = os.path.join(V, "selftest", "results.json")
if os.path.exists(res):
    for k, v in sorted(json.load(open(res)).items()):
        rows.append(("selftest/patches/" + k + ".sh", v["property"], v["result"], v["first_signature"], "mutation named under M in §7"))
out = ["## 13. Which checks catch which changes", "",
       "Every change below compiles and passes the repository's 229 tests. `seeded/*` were written by independent sub-agents that saw only the",
       "property text and a scratch worktree (patch, demonstration and meta.json are kept in /verif/seeded/<name>/); `selftest/patches/*` are the",
       "mutations named under **M** in §7. `rc=1` = the property's quick check reported a VIOLATION on the changed tree (scratch worktree, never /repo).", "",
       "| change | property | quick check | first signature reported | what it needs to manifest |", "|---|---|---|---|---|"]
for r in rows:
    out.append("| %s | %s | %s | `%s` | %s |" % (r[0], r[1], r[2].replace("|", "/"), r[3].replace("|", "¦").replace("sig=", ""), r[4].replace("|", "/")))
text = "\n".join(out) + "\n"
p = os.path.join(V, "DESIGN.md")
s = open(p).read()
if "## 13. Which checks catch which changes" in s:
    s = re.sub(r"## 13\. Which checks catch which changes.*?(?=\n## |\Z)", text, s, flags=re.S)
else:
    s = s.replace("## Appendix A.", text + "\n## Appendix A.", 1)
open(p, "w").write(s)
print("table with", len(rows), "rows")
